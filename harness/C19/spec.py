# C19 - a file transfer reported successful delivered exactly the bytes that were sent (in-band bytestreams, XEP-0047)
# REAL code: src/client/QXmppTransferManager.cpp (included by the harness), src/base/QXmppIbbIq.cpp, QXmppIq.cpp, QXmppStanza.cpp (what goes on the wire)
TUS = ['src/base/QXmppIbbIq.cpp', 'src/base/QXmppIq.cpp', 'src/base/QXmppStanza.cpp', 'src/base/QXmppUtils.cpp', 'src/base/QXmppNonza.cpp',
       'src/base/QXmppByteStreamIq.cpp', 'src/client/QXmppClientExtension.cpp']
MODELS = ['qt_core.c', 'qt_list.c', 'qt_dom.c', 'c19_models.c']
KF_WRAP = 'ibb_sequence_wrap'     # DESIGN D13: `int ibbSequence` compared with the 16-bit seq of XEP-0047
B_JOB = ('job pre-state: direction, method (all 4 values), state (all 4 values), peer JID 0..2 / session id 0..1 / outstanding request id 0..1 arbitrary UTF-16 units, '
         'bytes done and announced size 0..2^62, announced hash 0..2 arbitrary bytes (0 = none), block counter over the whole range of its type (>= 0), block size 0..2^31-1')
B_REQ = 'request: from 0..2 / sid 0..1 / id 0..1 arbitrary UTF-16 units'
def I(name, bound, **kw):
    d = dict(name=name, entry='h_' + name, unwind=6, timeout_s=300, mem_gb=3, bound=bound); d.update(kw); return d
def S(name, type_, blen, bound, entry='h_sender_step', **kw):
    # structural case of the sender step: IQ type (0 error, 1 get, 2 set, 3 result) and length of the next block of the device
    return I(name, bound + '; ' + B_JOB + '; response: from 0..2 / id 0..1 arbitrary units; device open or closed', entry=entry, cdefs={'VP_CASE': type_ | (blen << 2)}, mem_gb=4, **kw)
SPEC = dict(
    property='C19',
    groups=[
        dict(name='ibb', harness='h.cpp', tus=TUS, models=MODELS,
             instances=[
                 # receiver: match job by sender and session id, require the expected sequence number, write, acknowledge
                 I('data_step', 'one ibbDataIqReceived step; ' + B_JOB + '; ' + B_REQ + ', seq 0..65535, payload 0..2 arbitrary bytes; the local device accepts or refuses the write'),
                 I('data_step_kf', 'as data_step with block counter >= 65536 (demonstrates the known finding)', known_finding=KF_WRAP),
                 I('open_step', 'one ibbOpenIqReceived step; ' + B_JOB + '; ' + B_REQ + ', block-size over all long values; manager block-size limit 0..2^31-1'),
                 # final size and hash verification
                 I('close_step', 'one ibbCloseIqReceived step (+ checkData, terminate); ' + B_JOB + '; ' + B_REQ + '; digest of the running hash: 0..2 arbitrary bytes'),
                 I('terminated', '_q_terminated on any job state with any error value 0..4'),
                 I('lookup', 'getIncomingJobBySid / getOutgoingJobByRequestId on a list of 0..2 jobs (each: ' + B_JOB + '), query JID 0..2 / key 0..1 arbitrary units'),
                 I('transfer2', 'history: fresh incoming job (real constructor state) in StartState; open, 2 data blocks of 1 arbitrary byte with arbitrary 16-bit sequence numbers, close; announced size 0..255, hash 0..2 bytes, digest 0..2 bytes',
                   object_bits=12, mem_gb=4),
                 # sender: next block on each acknowledgement, close at end of data
                 S('sender_result2', 3, 2, 'one ibbResponseReceived step, IQ type result, the device yields a 2-byte block'),
                 S('sender_result0', 3, 0, 'one ibbResponseReceived step, IQ type result, the device is at end of data'),
                 S('sender_error', 0, 1, 'one ibbResponseReceived step, IQ type error'),
                 S('sender_dispatch', 3, 1, 'one _q_iqReceived step (dispatch to ibbResponseReceived) for an in-band job, non-empty from, IQ type result, the device yields a 1-byte block', entry='h_sender_dispatch'),
                 S('sender_result1', 3, 1, 'one ibbResponseReceived step, IQ type result, 1-byte block', tiers=('thorough',)),
                 S('sender_get', 1, 1, 'one ibbResponseReceived step, IQ type get', tiers=('thorough',)),
                 S('sender_set', 2, 1, 'one ibbResponseReceived step, IQ type set', tiers=('thorough',)),
                 S('sender_dispatch_error', 0, 1, 'one _q_iqReceived step for an in-band job, IQ type error', entry='h_sender_dispatch', tiers=('thorough',)),
                 S('sender_dispatch_eof', 3, 0, 'one _q_iqReceived step for an in-band job, IQ type result, end of data', entry='h_sender_dispatch', tiers=('thorough',)),
                 I('send2', 'history: fresh outgoing in-band job (real constructor state) with the open request outstanding; 3 acknowledgements; the device yields 2 blocks of 1 arbitrary byte, then end of data',
                   object_bits=12, mem_gb=5),
             ]),
    ],
    bounds=[
        'single inductive steps from an arbitrary job pre-state (one job in the manager; the lookup instance: 0..2 jobs): ' + B_JOB,
        B_REQ + '; data: seq over all 16-bit values, payload 0..2 arbitrary bytes; open: block-size over all long values',
        'the block counter ranges over every value of its type (all non-negative int before the repair of D13, all quint16 after): covers 0, block boundaries and more than 65536 blocks',
        'sender step: one cbmc instance per (IQ type, length of the next block 0..2); contents symbolic',
        'two histories from the state the real constructors leave: receiver open + 2 blocks (any sequence numbers/contents = any drop/duplicate/swap/alteration) + close; sender 3 acknowledgements with a 2-block source',
        'digests are 0..2 arbitrary bytes (nothing about the hash function is assumed)',
    ],
    assumptions=[
        'job and manager objects are typed raw storage; only their private data (built by the REAL QXmppTransferJobPrivate / QXmppTransferManagerPrivate constructors) is live; QObject plumbing (connect, parent, event loop) is not exercised',
        'signals (moc output in the real build) are a ghost log; QMetaObject::invokeMethod(job, "_q_terminated", Qt::QueuedConnection) is recorded, _q_terminated itself is checked separately',
        'QXmppClient::sendPacket serialises the stanza with its real toXml into the writer tree model (Qt XML escaping trusted) and may return either value',
        'QIODevice::write(data) of the user device consumes all bytes or fails with -1 (no partial writes); QIODevice::read(max) returns at most max bytes; the device is owned by the caller (accept(QIODevice*) / sendFile(jid, device, info): deviceIsOwn == false)',
        'QCryptographicHash object = recording oracle: addData appends to a ghost log, result() returns arbitrary bytes chosen per run; "running hash == announced hash" is the byte comparison of that digest with the announced value, and the steps prove that exactly the written bytes are hashed',
        'an announced size of 0 means "no size announced" (QXmppTransferFileInfo::toXml omits it), an empty hash means "no hash announced": then the respective check is void by design of XEP-0096',
        'numbers in attributes are abstract numeric strings, base64 is an abstract injective tagging (string model); stanza ids generated by QXmppStanza are placeholders (the outstanding request id is compared with the id attribute actually sent)',
        'pre-state invariant: the block counter is >= 0 (it counts blocks from 0)',
        'sender dispatch (_q_iqReceived): the response carries a non-empty from and the job uses the in-band method (responses without from / jobs of other methods are routed to stream-initiation and SOCKS5 handling)',
    ],
    outside=[
        'SOCKS5 bytestreams (QXmppSocks.cpp, QXmppByteStreamIq negotiation, proxy activation, _q_receiveData/_q_sendData over TCP): real sockets and the SOCKS protocol are not encoded',
        'stream initiation (XEP-0095/0096 offer, method selection, accept/refuse by the user, _q_jobStateChanged) and job scheduling / deletion (_q_jobDestroyed)',
        'parsing of the IBB stanzas from XML (QXmppIbb*Iq::parse, handleStanza dispatch): requests are built through their setters; the codecs are C01-type round trips',
        'file I/O: QFile opening, sendFile(path) hashing the file (Md5 over the whole file), devices that write partially',
        'collision resistance of the hash (content alterations that keep size are detected only through the announced hash, by contract of the hash function)',
        'an <open/> for a job that is not waiting for it: ibbOpenIqReceived does not look at the job state, so an open sent after the transfer finished puts a finished job back into TransferState (observed, not asserted; '
        'in the offer state the connected _q_jobStateChanged slot aborts the job, after completion nothing does)',
        'the reply sent for a block the local device refused to write (the code acknowledges it; the loss is reported at close through the size/hash check when they were announced)',
        'histories longer than 2 blocks (carried by the inductive steps), more than 2 jobs, strings longer than the bounds',
    ],
)
