/* C19 property-specific environment (C side): QIODevice byte sink / source, QCryptographicHash object as a recording oracle,
   queued QMetaObject::invokeMethod, opaque QUrl / QDateTime / QElapsedTimer.  Included after qt_core.c / qt_list.c / qt_dom.c. */
#ifdef HAVE_T_struct_QArrayData
#define C19_QBD(p) (*(QAD**)(p))
#define C19_BD(d) (((struct qb*)(d))->data)
void vp_c19_model_limit(uint8_t ok) { ASSERT(ok, "C19 environment: log capacity exceeded"); ASSUME(ok); }
uint8_t vp_c19_false(void) { return 0; }
/* symbolic QByteArray of a FIXED length n (<= 4): the length is a constant for symbolic execution */
void vp_c19_sym_bytes_n(char *out, uint32_t n) { ASSERT(n <= 4, "symbolic bytes bound"); QAD *d = qb_new(n, n); uint8_t c0 = vp_u8(), c1 = vp_u8(), c2 = vp_u8(), c3 = vp_u8();
  if (n > 0) C19_BD(d)[0] = c0; if (n > 1) C19_BD(d)[1] = c1; if (n > 2) C19_BD(d)[2] = c2; if (n > 3) C19_BD(d)[3] = c3; C19_BD(d)[n] = 0; C19_QBD(out) = d; }

/* ---- QIODevice (libQt5Core).  One device object (raw storage owned by the harness).
   write(const char*, qint64): appends to a ghost byte log, returns the full length (or -1 when the harness switched the device to
   "failing"); Qt contract used: a successful write of a random-access/buffer device consumes all bytes.
   read(qint64 max): hands out the block the harness queued with vp_c19_dev_source (a symbolic QByteArray of <= max bytes). ---- */
#define C19_WCAP 8
static char *c19_dev; static uint8_t c19_dev_open = 1, c19_dev_wfail;
static uint8_t c19_wlog[C19_WCAP]; static uint32_t c19_wn, c19_wcalls;
static QAD *c19_src; static uint32_t c19_rcalls; static uint64_t c19_rmax;
void vp_c19_dev_init(char *dev, uint8_t open, uint8_t wfail) { c19_dev = dev; c19_dev_open = open; c19_dev_wfail = wfail; c19_wn = 0; c19_wcalls = 0; c19_rcalls = 0; c19_src = SHARED_NULL; }
void vp_c19_dev_source(char *ba) { c19_src = qad_ref(C19_QBD(ba)); }
uint32_t vp_c19_dev_wcalls(void) { return c19_wcalls; }
uint32_t vp_c19_dev_wlen(void) { return c19_wn; }
uint8_t vp_c19_dev_wbyte(uint32_t i) { return i < C19_WCAP ? c19_wlog[i] : 0; }
uint32_t vp_c19_dev_rcalls(void) { return c19_rcalls; }
uint64_t vp_c19_dev_rmax(void) { return c19_rmax; }
static void vpl_c19_log(uint8_t *dst, uint32_t off, const uint8_t *s, uint32_t n, uint32_t hint) { for (uint32_t i = 0; i < hint; i++) { if (i >= n) break; if (off + i < C19_WCAP) dst[off + i] = s[i]; } }
uint64_t _ZN9QIODevice5writeEPKcx(char *self, char *p, uint64_t n) { ASSERT(self == c19_dev && self != 0, "QIODevice::write on an object that is not the harness device"); ASSUME(self == c19_dev);
  c19_wcalls++; if (c19_dev_wfail) return (uint64_t)-1; ASSERT(c19_wn + n <= C19_WCAP, "C19 device log capacity");
  vpl_c19_log(c19_wlog, c19_wn, (const uint8_t*)p, (uint32_t)n, hint8((const uint8_t*)p, n)); c19_wn += (uint32_t)n; return n; }
void _ZN9QIODevice4readEx(char *ret, char *self, uint64_t maxlen) { ASSERT(self == c19_dev && self != 0, "QIODevice::read on an object that is not the harness device"); ASSUME(self == c19_dev);
  c19_rcalls++; c19_rmax = maxlen; ASSERT((int64_t)maxlen >= 0 && c19_src->f1 <= maxlen, "C19 device source: queued block longer than the requested maximum"); C19_QBD(ret) = qad_ref(c19_src); }
uint8_t _ZNK9QIODevice6isOpenEv(char *self) { ASSERT(self == c19_dev && self != 0, "QIODevice::isOpen on an object that is not the harness device"); return c19_dev_open; }

/* ---- QCryptographicHash object: recording oracle.  addData appends to a ghost byte log; result() returns the digest the harness
   registered for "everything hashed so far" (arbitrary bytes: nothing about the hash function is assumed). ---- */
#define C19_HCAP 8
struct c19_hash { uint32_t alg; uint32_t n, ncalls, nresult; uint8_t log[C19_HCAP]; };
static QAD *c19_digest;
void vp_c19_set_digest(char *ba) { c19_digest = qad_ref(C19_QBD(ba)); }
#define C19_H(self) (*(struct c19_hash**)(self))
void _ZN18QCryptographicHashC1ENS_9AlgorithmE(char *self, uint32_t alg) { struct c19_hash *h = malloc(sizeof(struct c19_hash)); ASSUME(h != 0); h->alg = alg; h->n = 0; h->ncalls = 0; h->nresult = 0; C19_H(self) = h; }
void _ZN18QCryptographicHashC2ENS_9AlgorithmE(char *self, uint32_t alg) { _ZN18QCryptographicHashC1ENS_9AlgorithmE(self, alg); }
/* reset(): the data fed so far is forgotten (faithful: the ghost log restarts); counted so that a harness can see it */
static uint32_t c19_hash_resets;
uint32_t vp_c19_hash_resets(void) { return c19_hash_resets; }
void _ZN18QCryptographicHash5resetEv(char *self) { struct c19_hash *h = C19_H(self); h->n = 0; c19_hash_resets++; }
void _ZN18QCryptographicHashD1Ev(char *self) { }
void _ZN18QCryptographicHashD2Ev(char *self) { }
static void c19_hash_add(char *self, const uint8_t *p, uint32_t n, uint32_t hint) { struct c19_hash *h = C19_H(self); h->ncalls++; ASSERT(h->n + n <= C19_HCAP, "C19 hash log capacity");
  vpl_c19_log(h->log, h->n, p, n, hint); h->n += n; }
void _ZN18QCryptographicHash7addDataERK10QByteArray(char *self, char *ba) { QAD *d = C19_QBD(ba); c19_hash_add(self, qb_bytes(d), d->f1, qb_hint(d)); }
void _ZN18QCryptographicHash7addDataEPKci(char *self, char *p, uint32_t n) { c19_hash_add(self, (const uint8_t*)p, n, hint8((const uint8_t*)p, n)); }
void _ZNK18QCryptographicHash6resultEv(char *ret, char *self) { struct c19_hash *h = C19_H(self); h->nresult++; ASSERT(c19_digest != 0, "C19 hash oracle: no digest registered"); C19_QBD(ret) = qad_ref(c19_digest); }
uint32_t vp_c19_hash_alg(char *self) { return C19_H(self)->alg; }
uint32_t vp_c19_hash_calls(char *self) { return C19_H(self)->ncalls; }
uint32_t vp_c19_hash_len(char *self) { return C19_H(self)->n; }
uint8_t vp_c19_hash_byte(char *self, uint32_t i) { return i < C19_HCAP ? C19_H(self)->log[i] : 0; }

/* ---- QMetaObject::invokeMethod(obj, "member", Qt::QueuedConnection, ...): the call is queued, nothing runs now (ghost log) ---- */
static uint32_t c19_nqueued; static char *c19_queued_obj; static uint8_t c19_queued_is_terminated; static uint32_t c19_queued_type;
static uint8_t c19_streq(const char *a, const char *b) { for (uint32_t i = 0; i < 16; i++) { if (a[i] != b[i]) return 0; if (!a[i]) return 1; } return 0; }
/* QGenericReturnArgument / QGenericArgument are passed by reference (byval) in the translated program; no arguments are used here */
uint8_t _ZN11QMetaObject12invokeMethodEP7QObjectPKcN2Qt14ConnectionTypeE22QGenericReturnArgument16QGenericArgumentS7_S7_S7_S7_S7_S7_S7_S7_S7_(char *obj, char *member, uint32_t type, char *r, char *a0, char *a1, char *a2, char *a3, char *a4, char *a5, char *a6, char *a7, char *a8, char *a9, char *a10) {
  c19_nqueued++; c19_queued_obj = obj; c19_queued_type = type; c19_queued_is_terminated = c19_streq(member, "_q_terminated"); return 1; }
uint32_t vp_c19_nqueued(void) { return c19_nqueued; }
char* vp_c19_queued_obj(void) { return c19_queued_obj; }
uint8_t vp_c19_queued_ok(void) { return c19_queued_is_terminated && c19_queued_type == 2 /* Qt::QueuedConnection */; }

/* ---- opaque value types held by QXmppTransferJobPrivate / QXmppTransferFileInfoPrivate ---- */
void _ZN4QUrlC1Ev(char *self) { *(char**)self = 0; }
void _ZN4QUrlD1Ev(char *self) { }
void _ZN9QDateTimeC1Ev(char *self) { *(char**)self = 0; }
void _ZN9QDateTimeC1ERKS_(char *self, char *o) { *(char**)self = *(char**)o; }
void _ZN9QDateTimeD1Ev(char *self) { }
uint8_t _ZNK9QDateTime6isNullEv(char *self) { return *(char**)self == 0; }
uint8_t _ZNK9QDateTime7isValidEv(char *self) { return *(char**)self != 0; }
void _ZN13QElapsedTimer5startEv(char *self) { }
/* string blocks are never recycled (see C12): dropping the reference-count decrement of ~QString / ~QByteArray only forces copies */
void _ZN7QStringD2Ev(char *self) { }
void _ZN7QStringD1Ev(char *self) { }
void _ZN10QByteArrayD2Ev(char *self) { }
void _ZN10QByteArrayD1Ev(char *self) { }
/* text == base64(raw) in terms of the abstract base64 tagging of qt_core.c (tag = the raw block); raw has <= 4 bytes */
uint8_t vp_c19_text_is_b64_of(char *text, char *raw) { QAD *d = *(QAD**)text; QAD *r = C19_QBD(raw); if (r->f1 == 0) return d->f1 == 0; QAD *tag = QTAG16(d); if (!tag) return 0; if (tag == r) return 1;
  if (tag->f1 != r->f1) return 0; for (uint32_t i = 0; i < 4; i++) { if (i >= r->f1) break; if (qb_bytes(tag)[i] != qb_bytes(r)[i]) return 0; } return 1; }
uint32_t vp_c19_dom_nchildren(char *el) { struct dnode *n = DN(el); return n ? n->nch : 0; }
void vp_c19_dom_child(char *out, char *el, uint32_t i) { struct dnode *n = DN(el); DN(out) = (n && i < n->nch && i < DOM_MAXCH) ? n->ch[i] : 0; }
#endif
