// C19 - a file transfer reported successful delivered exactly the bytes that were sent (in-band bytestreams, XEP-0047).
// REAL code under check (src/client/QXmppTransferManager.cpp, included below): QXmppTransferManager::{ibbDataIqReceived,
// ibbOpenIqReceived, ibbCloseIqReceived, ibbResponseReceived, _q_iqReceived}, QXmppTransferManagerPrivate::{getIncomingJobBySid,
// getOutgoingJobByRequestId, getJobByRequestId}, QXmppTransferIncomingJob::{writeData, checkData}, QXmppTransferJob::{terminate,
// setState, ...}, QXmppTransferFileInfo, and what is put on the wire: QXmppIq / QXmppStanza(::Error) / QXmppIbb{Data,Close}Iq::toXml.
// Environment (this file + c19_models.c): QXmppClient::sendPacket = wire log (real toXml into the writer tree model), the jobs'
// and the manager's signals (moc output in the real build) = ghost log, QIODevice = byte sink / symbolic source,
// QCryptographicHash object = recording oracle, QMetaObject::invokeMethod(queued) = ghost counter.
#include <QString>
#include <QByteArray>
#include <QMap>
#include <QList>
#include <QHash>
#include <QSet>
#include <QStringList>
#include <QDomElement>
#include <QXmlStreamWriter>
#include <QObject>
#include <QSharedDataPointer>
#include <QSharedData>
#include <QDateTime>
#include <QTime>
#include <QTimer>
#include <QUrl>
#include <QVariant>
#include <QCryptographicHash>
#include <QElapsedTimer>
#include <QFile>
#include <QFileInfo>
#include <QHostAddress>
#include <QMetaMethod>
#include <QNetworkInterface>
#include <QNetworkProxy>
#include <QSslError>
#include <QSslSocket>
#include <QAbstractSocket>
#include <QTcpSocket>
#include <QTcpServer>
#include <QUdpSocket>
#include <QFuture>
#include <QMimeType>
#include <variant>
#include <optional>
#include <memory>
#include <any>
#include <functional>
#include "vp_harness.h"
#include "vp_dom.h"

#define private public
#define protected public
#include "client/QXmppTransferManager.cpp"
#undef private
#undef protected

extern "C" {
void vp_c19_model_limit(bool ok);
bool vp_c19_false();
void vp_c19_dev_init(void *dev, bool open, bool wfail);
void vp_c19_dev_source(const QByteArray *ba);
unsigned vp_c19_dev_wcalls(); unsigned vp_c19_dev_wlen(); unsigned char vp_c19_dev_wbyte(unsigned i);
unsigned vp_c19_dev_rcalls(); unsigned long long vp_c19_dev_rmax();
void vp_c19_set_digest(const QByteArray *ba);
unsigned vp_c19_hash_alg(const void *h); unsigned vp_c19_hash_calls(const void *h); unsigned vp_c19_hash_len(const void *h); unsigned char vp_c19_hash_byte(const void *h, unsigned i);
unsigned vp_c19_nqueued(); void *vp_c19_queued_obj(); bool vp_c19_queued_ok();
unsigned vp_c19_dom_nchildren(const QDomElement *);
void vp_c19_dom_child(QDomElement *out, const QDomElement *el, unsigned i);
}
#define L(x) QStringLiteral(x)

#ifndef C19_JIDLEN
#define C19_JIDLEN 2      // peer JIDs / from attributes: 0..2 arbitrary UTF-16 units
#endif
#ifndef C19_SIDLEN
#define C19_SIDLEN 1      // session ids
#endif
#ifndef C19_IDLEN
#define C19_IDLEN 1       // stanza ids
#endif
#ifndef C19_PAYLOAD
#define C19_PAYLOAD 2     // bytes per block
#endif

// ------------------------------------------------------------------------------------------------ environment
static char g_clientRaw[64];
static char g_devRaw[64];
static QIODevice *theDevice() { return reinterpret_cast<QIODevice *>(g_devRaw); }

// wire log: everything handed to QXmppClient::sendPacket, serialised by its REAL toXml into the writer tree model
#define C19_LOGCAP 2
static int g_nsent;
static QDomElement g_sent[C19_LOGCAP];
bool QXmppClient::sendPacket(const QXmppNonza &p)
{
    VpWriter w;
    p.toXml(w.writer());
    vp_c19_model_limit(g_nsent < C19_LOGCAP);
    g_sent[g_nsent] = w.root();
    g_nsent++;
    return vp_bool();   // sending may fail; the transfer logic must not depend on it
}

// signals (bodies are moc output in the real build: QMetaObject::activate) -> ghost log
enum { SigError = 1, SigFinished, SigUrl, SigProgress, SigState, SigMgr };
#define C19_SIGCAP 4
static int g_nsig;
static int g_sigKind[C19_SIGCAP];
static const QObject *g_sigObj[C19_SIGCAP];
static qint64 g_sigA[C19_SIGCAP], g_sigB[C19_SIGCAP];
static void sig(int kind, const QObject *o, qint64 a, qint64 b)
{
    if (g_nsig < C19_SIGCAP) { g_sigKind[g_nsig] = kind; g_sigObj[g_nsig] = o; g_sigA[g_nsig] = a; g_sigB[g_nsig] = b; }
    g_nsig++;
}
void QXmppTransferJob::error(QXmppTransferJob::Error e) { sig(SigError, this, e, 0); }
void QXmppTransferJob::finished() { sig(SigFinished, this, 0, 0); }
void QXmppTransferJob::localFileUrlChanged(const QUrl &) { sig(SigUrl, this, 0, 0); }
void QXmppTransferJob::progress(qint64 done, qint64 total) { sig(SigProgress, this, done, total); }
void QXmppTransferJob::stateChanged(QXmppTransferJob::State s) { sig(SigState, this, s, 0); }
void QXmppTransferManager::fileReceived(QXmppTransferJob *j) { sig(SigMgr, j, 0, 0); }
void QXmppTransferManager::jobStarted(QXmppTransferJob *j) { sig(SigMgr, j, 1, 0); }
void QXmppTransferManager::jobFinished(QXmppTransferJob *j) { sig(SigMgr, j, 2, 0); }

// ------------------------------------------------------------------------------------------------ scaffolding
// Manager and jobs live in typed, unconstructed storage: their QObject parts are never touched by the code under check
// (signals are the ghost log above, connections are not needed for a single step); only the private data is live and is
// built by the REAL constructors of QXmppTransferJobPrivate / QXmppTransferManagerPrivate.
union MgrU { QXmppTransferManager v; MgrU() {} ~MgrU() {} };
union InU { QXmppTransferIncomingJob v; InU() {} ~InU() {} };
union OutU { QXmppTransferOutgoingJob v; OutU() {} ~OutU() {} };

static QXmppTransferJobPrivate *attachJobPrivate(QXmppTransferJob *j)
{
    auto *d = new QXmppTransferJobPrivate;
    new (const_cast<std::unique_ptr<QXmppTransferJobPrivate> *>(&j->d)) std::unique_ptr<QXmppTransferJobPrivate>(d);
    d->client = reinterpret_cast<QXmppClient *>(g_clientRaw);
    return d;
}
static QXmppTransferManagerPrivate *attachMgrPrivate(QXmppTransferManager *m)
{
    auto *d = new QXmppTransferManagerPrivate;
    new (const_cast<std::unique_ptr<QXmppTransferManagerPrivate> *>(&m->d)) std::unique_ptr<QXmppTransferManagerPrivate>(d);
    m->m_client = reinterpret_cast<QXmppClient *>(g_clientRaw);
    return d;
}

// The DOM model keeps attributes in slots interned by name; interning every name used by the serialisers up front keeps the
// slot table constant during symbolic execution.
static void internAttrs()
{
    QDomElement e; const QString tag = L("x"), ns, v;
    vp_dom_new(&e, &tag, &ns);
#define IA(x) { const QString a_ = L(x); vp_dom_set_attr(&e, &a_, &v); }
    IA("type") IA("id") IA("from") IA("to") IA("xml:lang") IA("sid") IA("seq") IA("block-size") IA("by") IA("code") IA("xmlns")
#undef IA
}

// symbolic job pre-state: any direction / method / state, any peer JID and session id, any counters
struct JobPre {
    int direction, method, state;
    QString jid, sid, requestId;
    qint64 done, size;
    QByteArray hash;
    long long seq;       // value of ibbSequence (as stored)
    int blockSize;
};
static void symJob(QXmppTransferJobPrivate *d, JobPre &p, bool kfDemo = false)
{
    p.direction = vp_u8(); vp_assume(p.direction <= 1);
    p.method = vp_u8(); vp_assume(p.method <= 3);                 // NoMethod, InBand, Socks (AnyMethod never stored, allowed anyway)
    p.state = vp_u8(); vp_assume(p.state <= 3);
    p.jid = vpSymString(C19_JIDLEN); p.sid = vpSymString(C19_SIDLEN); p.requestId = vpSymString(C19_IDLEN);
    p.done = qint64(vp_u64()); vp_assume(p.done >= 0 && p.done <= (qint64(1) << 62));
    p.size = qint64(vp_u64()); vp_assume(p.size >= 0 && p.size <= (qint64(1) << 62));
    p.hash = vpSymBytes(2);
    d->direction = QXmppTransferJob::Direction(p.direction);
    d->method = QXmppTransferJob::Method(p.method);
    d->state = QXmppTransferJob::State(p.state);
    d->jid = p.jid; d->sid = p.sid; d->requestId = p.requestId;
    d->done = p.done;
    d->fileInfo.setSize(p.size);
    d->fileInfo.setHash(p.hash);
    // the block counter: every value its type can hold after counting blocks from 0 (an int counter never goes negative
    // without signed overflow)
    using SeqT = decltype(d->ibbSequence);
    const SeqT s = SeqT(vp_u32());
    vp_assume(s >= 0);
    // known finding ibb_sequence_wrap (DESIGN D13): an `int` counter is compared with the 16-bit seq, so every block after the
    // 65536th is refused.  While the finding is listed, exactly the input class "counter >= 65536" is excluded here and
    // demonstrated by the *_kf instance.
    if (kfDemo) vp_assume((long long)s >= 65536);
#ifdef KF_ibb_sequence_wrap
    else vp_assume((long long)s < 65536);
#endif
    d->ibbSequence = s; p.seq = s;
    p.blockSize = int(vp_u32()); vp_assume(p.blockSize >= 0);
    d->blockSize = p.blockSize;
    d->iodevice = theDevice();
    d->deviceIsOwn = false;   // accept(QIODevice*) / sendFile(jid, device, info): the caller owns the device
}

// exactly one stanza went out, an <iq/> reply to (from, id) of the given type; for errors: the condition element
static void expectReply(const QString &to, const QString &id, bool result, const QString &condition, const QString &errType)
{
    vp_assert(g_nsent == 1, "C19 exactly one reply is sent per in-band bytestream request");
    if (g_nsent != 1) return;
    const QDomElement &a = g_sent[0];
    vp_assert(a.tagName() == L("iq") && a.attribute(L("id")) == id && a.attribute(L("to")) == to, "C19 the reply is an iq with the request id, addressed to the sender of the request");
    vp_assert(a.attribute(L("type")) == (result ? L("result") : L("error")), "C19 the reply type is result exactly when the request was accepted, error otherwise");
    vp_assert(vp_c19_dom_nchildren(&a) == (result ? 0u : 1u), "C19 an acknowledgement is empty, an error reply carries exactly the error element");
    if (!result) {
        QDomElement e; vp_c19_dom_child(&e, &a, 0);
        vp_assert(e.tagName() == L("error") && e.attribute(L("type")) == errType, "C19 error reply: <error/> with the expected type");
        QDomElement c; vp_c19_dom_child(&c, &e, 0);
        vp_assert(vp_c19_dom_nchildren(&e) == 1 && c.tagName() == condition && c.namespaceURI() == L("urn:ietf:params:xml:ns:xmpp-stanzas"), "C19 error reply: the expected stanza error condition");
    }
}

// ------------------------------------------------------------------------------------------------ (1) receiver: one data block
static void dataStep(bool kfDemo)
{
    internAttrs();
    static MgrU mu; static InU ju;
    QXmppTransferManager *m = &mu.v; QXmppTransferIncomingJob *job = &ju.v;
    QXmppTransferManagerPrivate *md = attachMgrPrivate(m);
    QXmppTransferJobPrivate *jd = attachJobPrivate(job);
    JobPre pre; symJob(jd, pre, kfDemo);
    md->jobs.append(job);
    vp_c19_dev_init(theDevice(), true, false);

    // the block: any sender, session id, 16-bit sequence number, payload
    const QString from = vpSymString(C19_JIDLEN), sid = vpSymString(C19_SIDLEN), id = vpSymString(C19_IDLEN);
    const unsigned seq = vp_u16();
    const QByteArray payload = vpSymBytes(C19_PAYLOAD);
    QXmppIbbDataIq iq;
    iq.setFrom(from); iq.setId(id); iq.setSid(sid); iq.setSequence(quint16(seq)); iq.setPayload(payload);

    m->ibbDataIqReceived(iq);

    const bool match = pre.direction == QXmppTransferJob::IncomingDirection && pre.jid == from && pre.sid == sid;
    const bool live = match && pre.method == QXmppTransferJob::InBandMethod && pre.state == QXmppTransferJob::TransferState;
    const bool inSeq = unsigned(pre.seq & 0xffff) == seq;          // XEP-0047: seq is a 16-bit counter that wraps
    const bool accept = live && inSeq;
    const int n = payload.size();
    if (accept) expectReply(from, id, true, QString(), QString());
    else if (live) expectReply(from, id, false, L("unexpected-request"), L("cancel"));
    else expectReply(from, id, false, L("item-not-found"), L("cancel"));
    vp_assert(vp_c19_dev_wcalls() == (accept ? 1u : 0u), "C19 a block is written exactly when it is accepted (right sender, session, state and sequence number)");
    vp_assert(vp_c19_dev_wlen() == (accept ? unsigned(n) : 0u), "C19 an accepted block is written completely, a refused block not at all");
    for (int i = 0; i < C19_PAYLOAD; i++) { if (accept && i < n) vp_assert(vp_c19_dev_wbyte(i) == (unsigned char)payload.at(i), "C19 the bytes written are the bytes of the block"); }
    vp_assert(jd->done == pre.done + (accept ? n : 0), "C19 the byte count grows by exactly the accepted block");
    vp_assert((unsigned(jd->ibbSequence) & 0xffff) == ((unsigned(pre.seq) + (accept ? 1u : 0u)) & 0xffff), "C19 the expected sequence number advances by one (mod 2^16) exactly on an accepted block");
    const bool hashed = accept && pre.hash.size() > 0;
    vp_assert(vp_c19_hash_calls(&jd->hash) == (hashed ? 1u : 0u) && vp_c19_hash_len(&jd->hash) == (hashed ? unsigned(n) : 0u), "C19 the running hash is fed with exactly the accepted block when a hash was announced");
    for (int i = 0; i < C19_PAYLOAD; i++) { if (hashed && i < n) vp_assert(vp_c19_hash_byte(&jd->hash, i) == (unsigned char)payload.at(i), "C19 the bytes hashed are the bytes written"); }
    vp_assert(int(jd->state) == pre.state && int(jd->error) == QXmppTransferJob::NoError && vp_c19_nqueued() == 0, "C19 a data block never finishes a transfer");
    vp_assert(accept ? (g_nsig == 1 && g_sigKind[0] == SigProgress && g_sigObj[0] == job && g_sigA[0] == jd->done && g_sigB[0] == pre.size) : g_nsig == 0,
              "C19 progress is reported with the new byte count for an accepted block, not at all for a refused one");
}
extern "C" void h_data_step() { dataStep(false); }
extern "C" void h_data_step_kf() { dataStep(true); }

// ------------------------------------------------------------------------------------------------ (2) receiver: close
// success <=> (no size announced or bytes written == announced size) and (no hash announced or running hash == announced hash)
extern "C" void h_close_step()
{
    internAttrs();
    static MgrU mu; static InU ju;
    QXmppTransferManager *m = &mu.v; QXmppTransferIncomingJob *job = &ju.v;
    QXmppTransferManagerPrivate *md = attachMgrPrivate(m);
    QXmppTransferJobPrivate *jd = attachJobPrivate(job);
    JobPre pre; symJob(jd, pre);
    md->jobs.append(job);
    vp_c19_dev_init(theDevice(), true, false);
    // digest of everything hashed so far: arbitrary bytes (same length as an announced hash may have, or not)
    const QByteArray digest = vpSymBytes(2);
    vp_c19_set_digest(&digest);

    const QString from = vpSymString(C19_JIDLEN), sid = vpSymString(C19_SIDLEN), id = vpSymString(C19_IDLEN);
    QXmppIbbCloseIq iq;
    iq.setFrom(from); iq.setId(id); iq.setSid(sid);

    m->ibbCloseIqReceived(iq);

    const bool match = pre.direction == QXmppTransferJob::IncomingDirection && pre.jid == from && pre.sid == sid && pre.method == QXmppTransferJob::InBandMethod;
    if (match) expectReply(from, id, true, QString(), QString());
    else expectReply(from, id, false, L("item-not-found"), L("cancel"));
    const bool wasFinished = pre.state == QXmppTransferJob::FinishedState;
    const bool ends = match && !wasFinished;
    const bool sizeOk = pre.size == 0 || pre.done == pre.size;
    const bool hashOk = pre.hash.size() == 0 || digest == pre.hash;
    vp_assert(int(jd->state) == (ends ? int(QXmppTransferJob::FinishedState) : pre.state), "C19 close finishes exactly the addressed in-band job (same sender and session id)");
    vp_assert(int(jd->error) == (ends && !(sizeOk && hashOk) ? int(QXmppTransferJob::FileCorruptError) : int(QXmppTransferJob::NoError)),
              "C19 the receiver reports success exactly when the byte count equals the announced size and the running hash equals the announced hash, FileCorruptError otherwise");
    vp_assert(vp_c19_nqueued() == (ends ? 1u : 0u) && (!ends || (vp_c19_queued_obj() == job && vp_c19_queued_ok())), "C19 finishing is announced once (queued _q_terminated on the job)");
    vp_assert(vp_c19_dev_wcalls() == 0 && jd->done == pre.done && vp_c19_hash_calls(&jd->hash) == 0, "C19 close writes nothing");
    vp_assert(g_nsig == 0, "C19 close emits no signal synchronously");
}

// _q_terminated: what the user is told
extern "C" void h_terminated()
{
    static InU ju; QXmppTransferIncomingJob *job = &ju.v;
    QXmppTransferJobPrivate *jd = attachJobPrivate(job);
    JobPre pre; symJob(jd, pre);
    const int err = vp_u8(); vp_assume(err <= 4);
    jd->error = QXmppTransferJob::Error(err);
    job->_q_terminated();
    vp_assert(g_nsig == (err ? 3 : 2), "C19 termination: stateChanged, [error], finished");
    vp_assert(g_sigKind[0] == SigState && g_sigA[0] == pre.state, "C19 termination reports the state");
    vp_assert(err == 0 || (g_sigKind[1] == SigError && g_sigA[1] == err), "C19 a failed transfer emits error(cause) before finished()");
    vp_assert(g_sigKind[err ? 2 : 1] == SigFinished, "C19 finished() is emitted last");
    vp_assert(int(job->error()) == err, "C19 error() tells the cause");
}

// ------------------------------------------------------------------------------------------------ (3) receiver: open
extern "C" void h_open_step()
{
    internAttrs();
    static MgrU mu; static InU ju;
    QXmppTransferManager *m = &mu.v; QXmppTransferIncomingJob *job = &ju.v;
    QXmppTransferManagerPrivate *md = attachMgrPrivate(m);
    QXmppTransferJobPrivate *jd = attachJobPrivate(job);
    JobPre pre; symJob(jd, pre);
    md->jobs.append(job);
    md->ibbBlockSize = int(vp_u32()); vp_assume(md->ibbBlockSize >= 0);
    const int limit = md->ibbBlockSize;
    vp_c19_dev_init(theDevice(), true, false);

    const QString from = vpSymString(C19_JIDLEN), sid = vpSymString(C19_SIDLEN), id = vpSymString(C19_IDLEN);
    const long bs = long(vp_u64());
    QXmppIbbOpenIq iq;
    iq.setFrom(from); iq.setId(id); iq.setSid(sid); iq.setBlockSize(bs);

    m->ibbOpenIqReceived(iq);

    const bool match = pre.direction == QXmppTransferJob::IncomingDirection && pre.jid == from && pre.sid == sid && pre.method == QXmppTransferJob::InBandMethod;
    const bool fits = bs <= long(limit);
    const bool accept = match && fits;
    if (accept) expectReply(from, id, true, QString(), QString());
    else if (match) expectReply(from, id, false, L("resource-constraint"), L("modify"));
    else expectReply(from, id, false, L("item-not-found"), L("cancel"));
    vp_assert(int(jd->state) == (accept ? int(QXmppTransferJob::TransferState) : pre.state), "C19 open starts exactly the addressed in-band job, and only with an acceptable block size");
    vp_assert(jd->blockSize == (accept ? int(bs) : pre.blockSize), "C19 the negotiated block size is the offered one");
    vp_assert(jd->done == pre.done && (unsigned(jd->ibbSequence) & 0xffff) == (unsigned(pre.seq) & 0xffff) && vp_c19_dev_wcalls() == 0 && vp_c19_nqueued() == 0, "C19 open neither writes nor finishes");
    const bool changed = accept && pre.state != QXmppTransferJob::TransferState;
    vp_assert(changed ? (g_nsig == 1 && g_sigKind[0] == SigState && g_sigA[0] == QXmppTransferJob::TransferState) : g_nsig == 0, "C19 open reports the state change");
}

// ------------------------------------------------------------------------------------------------ (4) sender: response to the outstanding request
// next block only on a result for the outstanding request id from the peer; close at end of data; error => close + ProtocolError
static void senderStep(bool viaDispatch)
{
    internAttrs();
    static MgrU mu; static OutU ju;
    QXmppTransferManager *m = &mu.v; QXmppTransferOutgoingJob *job = &ju.v;
    QXmppTransferManagerPrivate *md = attachMgrPrivate(m);
    QXmppTransferJobPrivate *jd = attachJobPrivate(job);
    JobPre pre; symJob(jd, pre);
    md->jobs.append(job);
    const bool devOpen = vp_bool();
    vp_c19_dev_init(theDevice(), devOpen, false);
    const QByteArray block = vpSymBytes(C19_PAYLOAD);        // what the device yields next (empty = end of data)
    vp_assume(block.size() <= pre.blockSize);                // QIODevice::read(max) contract
    vp_c19_dev_source(&block);

    const QString from = vpSymString(C19_JIDLEN), id = vpSymString(C19_IDLEN);
    const int type = vp_u8(); vp_assume(type <= 3);          // Error, Get, Set, Result
    QXmppIq iq; iq.setType(QXmppIq::Type(type));
    iq.setFrom(from); iq.setId(id);

    // an IQ without a from attribute comes from the own server; _q_iqReceived routes it to the SOCKS5 proxy branch (outside)
    // and for jobs of another method it handles stream-initiation refusals / SOCKS5 activation (outside)
    if (viaDispatch) vp_assume(from.size() > 0 && pre.method == QXmppTransferJob::InBandMethod);
    if (viaDispatch) m->_q_iqReceived(iq); else m->ibbResponseReceived(iq);

    const bool match = pre.direction == QXmppTransferJob::OutgoingDirection && pre.jid == from && pre.requestId == id && pre.method == QXmppTransferJob::InBandMethod
        && pre.state != QXmppTransferJob::FinishedState && devOpen;
    const bool isResult = type == QXmppIq::Result, isError = type == QXmppIq::Error;
    const int n = block.size();
    const bool sendsData = match && isResult && n > 0;
    const bool sendsClose = match && ((isResult && n == 0) || isError);
    vp_assert(vp_c19_dev_rcalls() == (match && isResult ? 1u : 0u), "C19 the sender reads the next block exactly on a result for its outstanding request");
    vp_assert(!(match && isResult) || vp_c19_dev_rmax() == (unsigned long long)pre.blockSize, "C19 the sender reads at most the negotiated block size");
    vp_assert(g_nsent == (sendsData || sendsClose ? 1 : 0), "C19 the sender sends one stanza per acknowledged block and nothing on any other IQ");
    if (g_nsent == 1 && (sendsData || sendsClose)) {
        const QDomElement &a = g_sent[0];
        vp_assert(a.tagName() == L("iq") && a.attribute(L("type")) == L("set") && a.attribute(L("to")) == pre.jid && a.attribute(L("id")) == jd->requestId,
                  "C19 the next request goes to the peer as iq set and its id becomes the outstanding request id");
        QDomElement c; vp_c19_dom_child(&c, &a, 0);
        vp_assert(vp_c19_dom_nchildren(&a) == 1 && c.tagName() == (sendsData ? L("data") : L("close")) && c.namespaceURI() == L("http://jabber.org/protocol/ibb") && c.attribute(L("sid")) == pre.sid,
                  "C19 a data element while the device yields bytes, a close element at end of data or after an error, for this session");
        if (sendsData) {
            vp_assert(c.attribute(L("seq")) == QString::number(unsigned(pre.seq) & 0xffff), "C19 blocks are numbered consecutively mod 2^16");
            const QString text = c.text(); const QString want = QString::fromUtf8(block.toBase64());
            vp_assert(text == want, "C19 the block carries exactly the bytes read from the device");
        }
    }
    vp_assert(jd->done == pre.done + (sendsData ? n : 0), "C19 the sender counts exactly the bytes it sent");
    vp_assert((unsigned(jd->ibbSequence) & 0xffff) == ((unsigned(pre.seq) + (sendsData ? 1u : 0u)) & 0xffff), "C19 the sender's sequence number advances by one per block sent");
    const int expState = sendsClose ? int(QXmppTransferJob::FinishedState) : (match && isResult ? int(QXmppTransferJob::TransferState) : pre.state);
    vp_assert(int(jd->state) == expState, "C19 sender state: transferring while blocks go out, finished after close");
    vp_assert(int(jd->error) == (match && isError ? int(QXmppTransferJob::ProtocolError) : int(QXmppTransferJob::NoError)), "C19 the sender reports success after the last block was acknowledged and ProtocolError when a block was refused");
    vp_assert(vp_c19_nqueued() == (sendsClose ? 1u : 0u), "C19 the sender finishes exactly when it closes the stream");
    vp_assert(match || (jd->requestId == pre.requestId), "C19 an unrelated IQ leaves the outstanding request id alone");
}
extern "C" void h_sender_step() { senderStep(false); }
extern "C" void h_sender_dispatch() { senderStep(true); }
