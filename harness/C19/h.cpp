// C19 - a file transfer reported successful delivered exactly the bytes that were sent (in-band bytestreams, XEP-0047).
// REAL code under check (src/client/QXmppTransferManager.cpp, included below): QXmppTransferManager::{ibbDataIqReceived,
// ibbOpenIqReceived, ibbCloseIqReceived, ibbResponseReceived, _q_iqReceived}, QXmppTransferManagerPrivate::{getIncomingJobBySid,
// getOutgoingJobByRequestId, getJobByRequestId}, QXmppTransferIncomingJob::{writeData, checkData}, QXmppTransferJob::{terminate,
// setState, ...}, QXmppTransferFileInfo, and what is put on the wire: QXmppIq / QXmppStanza(::Error) / QXmppIbb{Data,Close}Iq::toXml.
// Environment (this file + c19_models.c): QXmppClient::sendPacket = wire log (real toXml into the writer tree model), the jobs'
// and the manager's signals (moc output in the real build) = ghost log, QIODevice = byte sink / symbolic source,
// QCryptographicHash object = recording oracle, QMetaObject::invokeMethod(queued) = ghost counter.
// Entry points: (1) h_data_step[_kf]  (2) h_close_step, h_terminated  (3) h_open_step  (4) h_sender_step, h_sender_dispatch
// (single inductive steps from an arbitrary job pre-state)  (5) h_lookup (two jobs)  (6) h_transfer2 / (7) h_send2 (two-block
// histories from the state the real constructors leave).  SOCKS5 bytestreams are outside (see spec.py).
#include <QString>
#include <QByteArray>
#include <QMap>
#include <QList>
#include <QHash>
#include <QSet>
#include <QStringList>
#include <QDomElement>
#include <QXmlStreamWriter>
#include <QObject>
#include <QSharedDataPointer>
#include <QSharedData>
#include <QDateTime>
#include <QTime>
#include <QTimer>
#include <QUrl>
#include <QVariant>
#include <QCryptographicHash>
#include <QElapsedTimer>
#include <QFile>
#include <QFileInfo>
#include <QHostAddress>
#include <QMetaMethod>
#include <QNetworkInterface>
#include <QNetworkProxy>
#include <QSslError>
#include <QSslSocket>
#include <QAbstractSocket>
#include <QTcpSocket>
#include <QTcpServer>
#include <QUdpSocket>
#include <QFuture>
#include <QMimeType>
#include <variant>
#include <optional>
#include <memory>
#include <any>
#include <functional>
#include "vp_harness.h"
#include "vp_dom.h"

#define private public
#define protected public
#include "client/QXmppTransferManager.cpp"
#undef private
#undef protected

extern "C" {
void vp_c19_model_limit(bool ok);
bool vp_c19_false();
void vp_c19_sym_bytes_n(QByteArray *out, unsigned n);
void vp_c19_dev_init(void *dev, bool open, bool wfail);
void vp_c19_dev_source(const QByteArray *ba);
unsigned vp_c19_dev_wcalls(); unsigned vp_c19_dev_wlen(); unsigned char vp_c19_dev_wbyte(unsigned i);
unsigned vp_c19_dev_rcalls(); unsigned long long vp_c19_dev_rmax();
void vp_c19_set_digest(const QByteArray *ba);
unsigned vp_c19_hash_alg(const void *h); unsigned vp_c19_hash_calls(const void *h); unsigned vp_c19_hash_len(const void *h); unsigned char vp_c19_hash_byte(const void *h, unsigned i);
unsigned vp_c19_nqueued(); void *vp_c19_queued_obj(); bool vp_c19_queued_ok();
unsigned vp_c19_dom_nchildren(const QDomElement *);
void vp_c19_dom_child(QDomElement *out, const QDomElement *el, unsigned i);
bool vp_c19_text_is_b64_of(const QString *text, const QByteArray *raw);
}
#define L(x) QStringLiteral(x)

#ifndef C19_JIDLEN
#define C19_JIDLEN 2      // peer JIDs / from attributes: 0..2 arbitrary UTF-16 units
#endif
#ifndef C19_SIDLEN
#define C19_SIDLEN 1      // session ids
#endif
#ifndef C19_IDLEN
#define C19_IDLEN 1       // stanza ids
#endif
#ifndef C19_PAYLOAD
#define C19_PAYLOAD 2     // bytes per block
#endif

// ------------------------------------------------------------------------------------------------ environment
static char g_clientRaw[64];
static char g_devRaw[64];
static QIODevice *theDevice() { return reinterpret_cast<QIODevice *>(g_devRaw); }

// wire log: everything handed to QXmppClient::sendPacket is serialised by its REAL toXml into the writer tree model and
// classified on the spot against what the harness expects (set before the call).  Classifying inside the call keeps every DOM
// pointer path-local (concrete) for symbolic execution; only scalars are merged.
enum { K_NONE = 0, K_DATA, K_CLOSE, K_OPEN, K_ERROR, K_OTHER };                       // the single child of the iq
enum { C_ITEM_NOT_FOUND = 1, C_UNEXPECTED_REQUEST, C_RESOURCE_CONSTRAINT, C_OTHER }; // stanza error condition
enum { T_CANCEL = 1, T_MODIFY, T_OTHER };                                             // stanza error type
enum { Y_ERROR = 0, Y_GET, Y_SET, Y_RESULT, Y_OTHER };
struct Expect { QString to, id, sid, seq; QByteArray payload; const QString *idNow; };   // idNow: a string the id must equal at send time (or null)
static Expect g_exp;
struct Sent { int n, kind, type, cond, etype, nchildren; bool isIq, toOk, idOk, nsOk, sidOk, seqOk, payloadOk; int types[4]; };   // types: reply type per stanza (history harness)
static Sent g_sent;
bool QXmppClient::sendPacket(const QXmppNonza &p)
{
    VpWriter w;
    p.toXml(w.writer());
    const QDomElement a = w.root();
    g_sent.n++;
    g_sent.isIq = a.tagName() == L("iq");
    g_sent.toOk = a.attribute(L("to")) == g_exp.to;
    const QString id = a.attribute(L("id"));
    g_sent.idOk = g_exp.idNow ? id == *g_exp.idNow : id == g_exp.id;
    const QString ty = a.attribute(L("type"));
    g_sent.type = ty == L("error") ? Y_ERROR : ty == L("get") ? Y_GET : ty == L("set") ? Y_SET : ty == L("result") ? Y_RESULT : Y_OTHER;
    if (g_sent.n <= 4) g_sent.types[g_sent.n - 1] = g_sent.type;
    g_sent.nchildren = int(vp_c19_dom_nchildren(&a));
    g_sent.kind = K_NONE;
    if (g_sent.nchildren >= 1) {
        QDomElement c; vp_c19_dom_child(&c, &a, 0);
        const QString tag = c.tagName();
        const bool ibb = c.namespaceURI() == L("http://jabber.org/protocol/ibb");
        if (tag == L("error")) {
            g_sent.kind = K_ERROR;
            const QString et = c.attribute(L("type"));
            g_sent.etype = et == L("cancel") ? T_CANCEL : et == L("modify") ? T_MODIFY : T_OTHER;
            QDomElement cc; vp_c19_dom_child(&cc, &c, 0);
            const QString ct = cc.tagName();
            g_sent.cond = vp_c19_dom_nchildren(&c) != 1 ? C_OTHER : ct == L("item-not-found") ? C_ITEM_NOT_FOUND : ct == L("unexpected-request") ? C_UNEXPECTED_REQUEST
                        : ct == L("resource-constraint") ? C_RESOURCE_CONSTRAINT : C_OTHER;
            g_sent.nsOk = cc.namespaceURI() == L("urn:ietf:params:xml:ns:xmpp-stanzas");
        } else {
            g_sent.kind = tag == L("data") ? K_DATA : tag == L("close") ? K_CLOSE : tag == L("open") ? K_OPEN : K_OTHER;
            g_sent.nsOk = ibb;
            g_sent.sidOk = c.attribute(L("sid")) == g_exp.sid;
            if (g_sent.kind == K_DATA) {
                g_sent.seqOk = c.attribute(L("seq")) == g_exp.seq;
                const QString text = c.text();
                g_sent.payloadOk = vp_c19_text_is_b64_of(&text, &g_exp.payload);   // text == base64(expected bytes) (abstract base64 of the string model)
            }
        }
    }
    return vp_bool();   // sending may fail; the transfer logic must not depend on it
}

// signals (bodies are moc output in the real build: QMetaObject::activate) -> ghost log
enum { SigError = 1, SigFinished, SigUrl, SigProgress, SigState, SigMgr };
#define C19_SIGCAP 4
static int g_nsig;
static int g_sigKind[C19_SIGCAP];
static const QObject *g_sigObj[C19_SIGCAP];
static qint64 g_sigA[C19_SIGCAP], g_sigB[C19_SIGCAP];
static void sig(int kind, const QObject *o, qint64 a, qint64 b)
{
    if (g_nsig < C19_SIGCAP) { g_sigKind[g_nsig] = kind; g_sigObj[g_nsig] = o; g_sigA[g_nsig] = a; g_sigB[g_nsig] = b; }
    g_nsig++;
}
void QXmppTransferJob::error(QXmppTransferJob::Error e) { sig(SigError, this, e, 0); }
void QXmppTransferJob::finished() { sig(SigFinished, this, 0, 0); }
void QXmppTransferJob::localFileUrlChanged(const QUrl &) { sig(SigUrl, this, 0, 0); }
void QXmppTransferJob::progress(qint64 done, qint64 total) { sig(SigProgress, this, done, total); }
void QXmppTransferJob::stateChanged(QXmppTransferJob::State s) { sig(SigState, this, s, 0); }
void QXmppTransferManager::fileReceived(QXmppTransferJob *j) { sig(SigMgr, j, 0, 0); }
void QXmppTransferManager::jobStarted(QXmppTransferJob *j) { sig(SigMgr, j, 1, 0); }
void QXmppTransferManager::jobFinished(QXmppTransferJob *j) { sig(SigMgr, j, 2, 0); }

// ------------------------------------------------------------------------------------------------ scaffolding
// Manager and jobs live in typed, unconstructed storage: their QObject parts are never touched by the code under check
// (signals are the ghost log above, connections are not needed for a single step); only the private data is live and is
// built by the REAL constructors of QXmppTransferJobPrivate / QXmppTransferManagerPrivate.
union MgrU { QXmppTransferManager v; MgrU() {} ~MgrU() {} };
union InU { QXmppTransferIncomingJob v; InU() {} ~InU() {} };
union OutU { QXmppTransferOutgoingJob v; OutU() {} ~OutU() {} };

static QXmppTransferJobPrivate *attachJobPrivate(QXmppTransferJob *j)
{
    auto *d = new QXmppTransferJobPrivate;
    new (const_cast<std::unique_ptr<QXmppTransferJobPrivate> *>(&j->d)) std::unique_ptr<QXmppTransferJobPrivate>(d);
    d->client = reinterpret_cast<QXmppClient *>(g_clientRaw);
    return d;
}
static QXmppTransferManagerPrivate *attachMgrPrivate(QXmppTransferManager *m)
{
    auto *d = new QXmppTransferManagerPrivate;
    new (const_cast<std::unique_ptr<QXmppTransferManagerPrivate> *>(&m->d)) std::unique_ptr<QXmppTransferManagerPrivate>(d);
    m->m_client = reinterpret_cast<QXmppClient *>(g_clientRaw);
    return d;
}

// The DOM model keeps attributes in slots interned by name; interning every name used by the serialisers up front keeps the
// slot table constant during symbolic execution.
static void internAttrs()
{
    QDomElement e; const QString tag = L("x"), ns, v;
    vp_dom_new(&e, &tag, &ns);
#define IA(x) { const QString a_ = L(x); vp_dom_set_attr(&e, &a_, &v); }
    IA("type") IA("id") IA("from") IA("to") IA("xml:lang") IA("sid") IA("seq") IA("block-size") IA("by") IA("code") IA("xmlns")
#undef IA
}

// symbolic job pre-state: any direction / method / state, any peer JID and session id, any counters
struct JobPre {
    int direction, method, state;
    QString jid, sid, requestId;
    qint64 done, size;
    QByteArray hash;
    long long seq;       // value of ibbSequence (as stored)
    int blockSize;
};
static void symJob(QXmppTransferJobPrivate *d, JobPre &p, bool kfDemo = false)
{
    p.direction = vp_u8(); vp_assume(p.direction <= 1);
    p.method = vp_u8(); vp_assume(p.method <= 3);                 // NoMethod, InBand, Socks (AnyMethod never stored, allowed anyway)
    p.state = vp_u8(); vp_assume(p.state <= 3);
    p.jid = vpSymString(C19_JIDLEN); p.sid = vpSymString(C19_SIDLEN); p.requestId = vpSymString(C19_IDLEN);
    p.done = qint64(vp_u64()); vp_assume(p.done >= 0 && p.done <= (qint64(1) << 62));
    p.size = qint64(vp_u64()); vp_assume(p.size >= 0 && p.size <= (qint64(1) << 62));
    p.hash = vpSymBytes(2);
    d->direction = QXmppTransferJob::Direction(p.direction);
    d->method = QXmppTransferJob::Method(p.method);
    d->state = QXmppTransferJob::State(p.state);
    d->jid = p.jid; d->sid = p.sid; d->requestId = p.requestId;
    d->done = p.done;
    d->fileInfo.setSize(p.size);
    d->fileInfo.setHash(p.hash);
    // the block counter: every value its type can hold after counting blocks from 0 (an int counter never goes negative
    // without signed overflow)
    using SeqT = decltype(d->ibbSequence);
    const SeqT s = SeqT(vp_u32());
    vp_assume(s >= 0);
    // known finding ibb_sequence_wrap (DESIGN D13): an `int` counter is compared with the 16-bit seq, so every block after the
    // 65536th is refused.  While the finding is listed, exactly the input class "counter >= 65536" is excluded here and
    // demonstrated by the *_kf instance.
    if (kfDemo) vp_assume((long long)s >= 65536);
#ifdef KF_ibb_sequence_wrap
    else vp_assume((long long)s < 65536);
#endif
    d->ibbSequence = s; p.seq = s;
    p.blockSize = int(vp_u32()); vp_assume(p.blockSize >= 0);
    d->blockSize = p.blockSize;
    d->iodevice = theDevice();
    d->deviceIsOwn = false;   // accept(QIODevice*) / sendFile(jid, device, info): the caller owns the device
}

// exactly one stanza went out: an <iq/> reply to (from, id), result or error with the given condition
static void expectReply(bool result, int cond, int etype)
{
    vp_assert(g_sent.n == 1, "C19 exactly one reply is sent per in-band bytestream request");
    vp_assert(g_sent.isIq && g_sent.idOk && g_sent.toOk, "C19 the reply is an iq with the request id, addressed to the sender of the request");
    vp_assert(g_sent.type == (result ? Y_RESULT : Y_ERROR), "C19 the reply type is result exactly when the request was accepted, error otherwise");
    vp_assert(g_sent.nchildren == (result ? 0 : 1) && g_sent.kind == (result ? K_NONE : K_ERROR), "C19 an acknowledgement is empty, an error reply carries exactly the error element");
    vp_assert(result || (g_sent.etype == etype && g_sent.cond == cond && g_sent.nsOk), "C19 error reply: the expected error type and stanza error condition");
}

// ------------------------------------------------------------------------------------------------ (1) receiver: one data block
static void dataStep(bool kfDemo)
{
    internAttrs();
    static MgrU mu; static InU ju;
    QXmppTransferManager *m = &mu.v; QXmppTransferIncomingJob *job = &ju.v;
    QXmppTransferManagerPrivate *md = attachMgrPrivate(m);
    QXmppTransferJobPrivate *jd = attachJobPrivate(job);
    JobPre pre; symJob(jd, pre, kfDemo);
    md->jobs.append(job);
    const bool wfail = vp_bool();                 // the local device may refuse the write (QIODevice::write returns -1)
    vp_c19_dev_init(theDevice(), true, wfail);

    // the block: any sender, session id, 16-bit sequence number, payload
    const QString from = vpSymString(C19_JIDLEN), sid = vpSymString(C19_SIDLEN), id = vpSymString(C19_IDLEN);
    const unsigned seq = vp_u16();
    const QByteArray payload = vpSymBytes(C19_PAYLOAD);
    QXmppIbbDataIq iq;
    iq.setFrom(from); iq.setId(id); iq.setSid(sid); iq.setSequence(quint16(seq)); iq.setPayload(payload);

    g_exp.to = from; g_exp.id = id;
    m->ibbDataIqReceived(iq);

    const bool match = pre.direction == QXmppTransferJob::IncomingDirection && pre.jid == from && pre.sid == sid;
    const bool live = match && pre.method == QXmppTransferJob::InBandMethod && pre.state == QXmppTransferJob::TransferState;
    const bool inSeq = unsigned(pre.seq & 0xffff) == seq;          // XEP-0047: seq is a 16-bit counter that wraps
    const bool accept = live && inSeq;
    const bool stored = accept && !wfail;
    const int n = payload.size();
    // the reply to a block the local device refused is not constrained by the property (the code acknowledges it; the size /
    // hash check at close then reports the loss)
    if (!(accept && wfail)) expectReply(accept, live ? C_UNEXPECTED_REQUEST : C_ITEM_NOT_FOUND, T_CANCEL);
    vp_assert(vp_c19_dev_wcalls() == (accept ? 1u : 0u), "C19 a block is written exactly when it is accepted (right sender, session, state and sequence number)");
    vp_assert(vp_c19_dev_wlen() == (stored ? unsigned(n) : 0u), "C19 an accepted block is written completely, a refused block not at all");
    for (int i = 0; i < C19_PAYLOAD; i++) vp_assert(!(stored && i < n) || vp_c19_dev_wbyte(i) == (unsigned char)payload.at(i), "C19 the bytes written are the bytes of the block");
    vp_assert(jd->done == pre.done + (stored ? n : 0), "C19 the byte count grows by exactly the bytes written");
    vp_assert((unsigned(jd->ibbSequence) & 0xffff) == ((unsigned(pre.seq) + (accept ? 1u : 0u)) & 0xffff), "C19 the expected sequence number advances by one (mod 2^16) exactly on an accepted block");
    const bool hashed = stored && pre.hash.size() > 0;
    vp_assert(vp_c19_hash_calls(&jd->hash) == (hashed ? 1u : 0u) && vp_c19_hash_len(&jd->hash) == (hashed ? unsigned(n) : 0u), "C19 the running hash is fed with exactly the written block when a hash was announced");
    for (int i = 0; i < C19_PAYLOAD; i++) vp_assert(!(hashed && i < n) || vp_c19_hash_byte(&jd->hash, i) == (unsigned char)payload.at(i), "C19 the bytes hashed are the bytes written");
    vp_assert(int(jd->state) == pre.state && int(jd->error) == QXmppTransferJob::NoError && vp_c19_nqueued() == 0, "C19 a data block never finishes a transfer");
    vp_assert(stored ? (g_nsig == 1 && g_sigKind[0] == SigProgress && g_sigObj[0] == job && g_sigA[0] == jd->done && g_sigB[0] == pre.size) : g_nsig == 0,
              "C19 progress is reported with the new byte count for a stored block, not at all otherwise");
}
extern "C" void h_data_step() { dataStep(false); }
extern "C" void h_data_step_kf() { dataStep(true); }

// ------------------------------------------------------------------------------------------------ (2) receiver: close
// success <=> (no size announced or bytes written == announced size) and (no hash announced or running hash == announced hash)
extern "C" void h_close_step()
{
    internAttrs();
    static MgrU mu; static InU ju;
    QXmppTransferManager *m = &mu.v; QXmppTransferIncomingJob *job = &ju.v;
    QXmppTransferManagerPrivate *md = attachMgrPrivate(m);
    QXmppTransferJobPrivate *jd = attachJobPrivate(job);
    JobPre pre; symJob(jd, pre);
    md->jobs.append(job);
    vp_c19_dev_init(theDevice(), true, false);
    // digest of everything hashed so far: arbitrary bytes (same length as an announced hash may have, or not)
    const QByteArray digest = vpSymBytes(2);
    vp_c19_set_digest(&digest);

    const QString from = vpSymString(C19_JIDLEN), sid = vpSymString(C19_SIDLEN), id = vpSymString(C19_IDLEN);
    QXmppIbbCloseIq iq;
    iq.setFrom(from); iq.setId(id); iq.setSid(sid);

    g_exp.to = from; g_exp.id = id;
    m->ibbCloseIqReceived(iq);

    const bool match = pre.direction == QXmppTransferJob::IncomingDirection && pre.jid == from && pre.sid == sid && pre.method == QXmppTransferJob::InBandMethod;
    expectReply(match, C_ITEM_NOT_FOUND, T_CANCEL);
    const bool wasFinished = pre.state == QXmppTransferJob::FinishedState;
    const bool ends = match && !wasFinished;
    const bool sizeOk = pre.size == 0 || pre.done == pre.size;
    const bool hashOk = pre.hash.size() == 0 || digest == pre.hash;
    vp_assert(int(jd->state) == (ends ? int(QXmppTransferJob::FinishedState) : pre.state), "C19 close finishes exactly the addressed in-band job (same sender and session id)");
    vp_assert(int(jd->error) == (ends && !(sizeOk && hashOk) ? int(QXmppTransferJob::FileCorruptError) : int(QXmppTransferJob::NoError)),
              "C19 the receiver reports success exactly when the byte count equals the announced size and the running hash equals the announced hash, FileCorruptError otherwise");
    vp_assert(vp_c19_nqueued() == (ends ? 1u : 0u) && (!ends || (vp_c19_queued_obj() == job && vp_c19_queued_ok())), "C19 finishing is announced once (queued _q_terminated on the job)");
    vp_assert(vp_c19_dev_wcalls() == 0 && jd->done == pre.done && vp_c19_hash_calls(&jd->hash) == 0, "C19 close writes nothing");
    vp_assert(g_nsig == 0, "C19 close emits no signal synchronously");
}

// _q_terminated: what the user is told
extern "C" void h_terminated()
{
    static InU ju; QXmppTransferIncomingJob *job = &ju.v;
    QXmppTransferJobPrivate *jd = attachJobPrivate(job);
    JobPre pre; symJob(jd, pre);
    const int err = vp_u8(); vp_assume(err <= 4);
    jd->error = QXmppTransferJob::Error(err);
    job->_q_terminated();
    vp_assert(g_nsig == (err ? 3 : 2), "C19 termination: stateChanged, [error], finished");
    vp_assert(g_sigKind[0] == SigState && g_sigA[0] == pre.state, "C19 termination reports the state");
    vp_assert(err == 0 || (g_sigKind[1] == SigError && g_sigA[1] == err), "C19 a failed transfer emits error(cause) before finished()");
    vp_assert(g_sigKind[err ? 2 : 1] == SigFinished, "C19 finished() is emitted last");
    vp_assert(int(job->error()) == err, "C19 error() tells the cause");
}

// ------------------------------------------------------------------------------------------------ (3) receiver: open
extern "C" void h_open_step()
{
    internAttrs();
    static MgrU mu; static InU ju;
    QXmppTransferManager *m = &mu.v; QXmppTransferIncomingJob *job = &ju.v;
    QXmppTransferManagerPrivate *md = attachMgrPrivate(m);
    QXmppTransferJobPrivate *jd = attachJobPrivate(job);
    JobPre pre; symJob(jd, pre);
    md->jobs.append(job);
    md->ibbBlockSize = int(vp_u32()); vp_assume(md->ibbBlockSize >= 0);
    const int limit = md->ibbBlockSize;
    vp_c19_dev_init(theDevice(), true, false);

    const QString from = vpSymString(C19_JIDLEN), sid = vpSymString(C19_SIDLEN), id = vpSymString(C19_IDLEN);
    const long bs = long(vp_u64());
    QXmppIbbOpenIq iq;
    iq.setFrom(from); iq.setId(id); iq.setSid(sid); iq.setBlockSize(bs);

    g_exp.to = from; g_exp.id = id;
    m->ibbOpenIqReceived(iq);

    const bool match = pre.direction == QXmppTransferJob::IncomingDirection && pre.jid == from && pre.sid == sid && pre.method == QXmppTransferJob::InBandMethod;
    const bool fits = bs <= long(limit);
    const bool accept = match && fits;
    expectReply(accept, match ? C_RESOURCE_CONSTRAINT : C_ITEM_NOT_FOUND, match ? T_MODIFY : T_CANCEL);
    vp_assert(int(jd->state) == (accept ? int(QXmppTransferJob::TransferState) : pre.state), "C19 open starts exactly the addressed in-band job, and only with an acceptable block size");
    vp_assert(jd->blockSize == (accept ? int(bs) : pre.blockSize), "C19 the negotiated block size is the offered one");
    vp_assert(jd->done == pre.done && (unsigned(jd->ibbSequence) & 0xffff) == (unsigned(pre.seq) & 0xffff) && vp_c19_dev_wcalls() == 0 && vp_c19_nqueued() == 0, "C19 open neither writes nor finishes");
    const bool changed = accept && pre.state != QXmppTransferJob::TransferState;
    vp_assert(changed ? (g_nsig == 1 && g_sigKind[0] == SigState && g_sigA[0] == QXmppTransferJob::TransferState) : g_nsig == 0, "C19 open reports the state change");
}

// ------------------------------------------------------------------------------------------------ (4) sender: response to the outstanding request
// next block only on a result for the outstanding request id from the peer; close at end of data; error => close + ProtocolError
static void senderStep(bool viaDispatch)
{
    internAttrs();
    static MgrU mu; static OutU ju;
    QXmppTransferManager *m = &mu.v; QXmppTransferOutgoingJob *job = &ju.v;
    QXmppTransferManagerPrivate *md = attachMgrPrivate(m);
    QXmppTransferJobPrivate *jd = attachJobPrivate(job);
    JobPre pre; symJob(jd, pre);
    md->jobs.append(job);
    const bool devOpen = vp_bool();
    vp_c19_dev_init(theDevice(), devOpen, false);
    // structural choices (one cbmc instance per combination, contents symbolic): the IQ type and the length of the next block
    const int type = int(vp_case_u(0, 4));                   // Error, Get, Set, Result
    const unsigned blen = vp_case_u(2, C19_PAYLOAD + 1);     // what the device yields next: 0 (end of data) .. C19_PAYLOAD bytes
    QByteArray block; vp_c19_sym_bytes_n(&block, blen);
    vp_assume(block.size() <= pre.blockSize);                // QIODevice::read(max) contract
    vp_c19_dev_source(&block);

    const QString from = vpSymString(C19_JIDLEN), id = vpSymString(C19_IDLEN);
    QXmppIq iq; iq.setType(QXmppIq::Type(type));
    iq.setFrom(from); iq.setId(id);

    // an IQ without a from attribute comes from the own server; _q_iqReceived routes it to the SOCKS5 proxy branch (outside)
    // and for jobs of another method it handles stream-initiation refusals / SOCKS5 activation (outside)
    if (viaDispatch) vp_assume(from.size() > 0 && pre.method == QXmppTransferJob::InBandMethod);
    g_exp.to = pre.jid; g_exp.sid = pre.sid; g_exp.seq = QString::number(unsigned(pre.seq) & 0xffff); g_exp.payload = block; g_exp.idNow = &jd->requestId;
    if (viaDispatch) m->_q_iqReceived(iq); else m->ibbResponseReceived(iq);

    const bool match = pre.direction == QXmppTransferJob::OutgoingDirection && pre.jid == from && pre.requestId == id && pre.method == QXmppTransferJob::InBandMethod
        && pre.state != QXmppTransferJob::FinishedState && devOpen;
    const bool isResult = type == QXmppIq::Result, isError = type == QXmppIq::Error;
    const int n = block.size();
    const bool sendsData = match && isResult && n > 0;
    const bool sendsClose = match && ((isResult && n == 0) || isError);
    vp_assert(vp_c19_dev_rcalls() == (match && isResult ? 1u : 0u), "C19 the sender reads the next block exactly on a result for its outstanding request");
    vp_assert(!(match && isResult) || vp_c19_dev_rmax() == (unsigned long long)pre.blockSize, "C19 the sender reads at most the negotiated block size");
    vp_assert(g_sent.n == (sendsData || sendsClose ? 1 : 0), "C19 the sender sends one stanza per acknowledged block and nothing on any other IQ");
    const bool sent = g_sent.n == 1;
    vp_assert(!sent || (g_sent.isIq && g_sent.type == Y_SET && g_sent.toOk && g_sent.idOk), "C19 the next request goes to the peer as iq set and its id is the new outstanding request id");
    vp_assert(!sent || (g_sent.nchildren == 1 && g_sent.kind == (sendsData ? K_DATA : K_CLOSE) && g_sent.nsOk && g_sent.sidOk),
              "C19 a data element while the device yields bytes, a close element at end of data or after an error, for this session");
    vp_assert(!(sent && sendsData) || g_sent.seqOk, "C19 blocks are numbered consecutively mod 2^16");
    vp_assert(!(sent && sendsData) || g_sent.payloadOk, "C19 the block carries exactly the bytes read from the device");
    vp_assert(jd->done == pre.done + (sendsData ? n : 0), "C19 the sender counts exactly the bytes it sent");
    vp_assert((unsigned(jd->ibbSequence) & 0xffff) == ((unsigned(pre.seq) + (sendsData ? 1u : 0u)) & 0xffff), "C19 the sender's sequence number advances by one per block sent");
    const int expState = sendsClose ? int(QXmppTransferJob::FinishedState) : (match && isResult ? int(QXmppTransferJob::TransferState) : pre.state);
    vp_assert(int(jd->state) == expState, "C19 sender state: transferring while blocks go out, finished after close");
    vp_assert(int(jd->error) == (match && isError ? int(QXmppTransferJob::ProtocolError) : int(QXmppTransferJob::NoError)), "C19 the sender reports success after the last block was acknowledged and ProtocolError when a block was refused");
    vp_assert(vp_c19_nqueued() == (sendsClose ? 1u : 0u), "C19 the sender finishes exactly when it closes the stream");
    vp_assert(match || (jd->requestId == pre.requestId), "C19 an unrelated IQ leaves the outstanding request id alone");
}
extern "C" void h_sender_step() { senderStep(false); }
extern "C" void h_sender_dispatch() { senderStep(true); }

// ------------------------------------------------------------------------------------------------ (5) job lookup with two jobs
// getIncomingJobBySid / getOutgoingJobByRequestId return the FIRST job of the right direction whose peer JID and key are equal to
// the ones asked for (exact string equality), otherwise null
extern "C" void h_lookup()
{
    static MgrU mu; static InU j0, j1;
    QXmppTransferManager *m = &mu.v;
    QXmppTransferManagerPrivate *md = attachMgrPrivate(m);
    QXmppTransferJob *job[2] = { &j0.v, &j1.v };
    JobPre pre[2];
    for (int i = 0; i < 2; i++) { QXmppTransferJobPrivate *jd = attachJobPrivate(job[i]); symJob(jd, pre[i]); md->jobs.append(job[i]); }
    const unsigned njobs = vp_u8(); vp_assume(njobs <= 2);
    if (njobs < 2) md->jobs.removeLast();
    if (njobs < 1) md->jobs.removeLast();
    const QString jid = vpSymString(C19_JIDLEN), key = vpSymString(C19_SIDLEN);
    const bool bySid = vp_bool();
    QXmppTransferJob *got = bySid ? static_cast<QXmppTransferJob *>(md->getIncomingJobBySid(jid, key)) : static_cast<QXmppTransferJob *>(md->getOutgoingJobByRequestId(jid, key));
    QXmppTransferJob *want = nullptr;
    for (int i = 1; i >= 0; i--) {
        const bool hit = unsigned(i) < njobs && pre[i].direction == (bySid ? int(QXmppTransferJob::IncomingDirection) : int(QXmppTransferJob::OutgoingDirection))
            && pre[i].jid == jid && (bySid ? pre[i].sid : pre[i].requestId) == key;
        if (hit) want = job[i];
    }
    vp_assert(got == want, "C19 a stream request is attributed to the first job with the same direction, peer JID and session id / request id, to none otherwise");
}

// ------------------------------------------------------------------------------------------------ (6) a whole two-block transfer on the receiver
// From the state the REAL constructor leaves (counter 0, nothing received) after the user accepted the offer: open, two blocks
// with arbitrary sequence numbers and contents (= any drop / duplicate / swap / alteration of a two-block stream), close.
extern "C" void h_transfer2()
{
    internAttrs();
    static MgrU mu; static InU ju;
    QXmppTransferManager *m = &mu.v; QXmppTransferIncomingJob *job = &ju.v;
    QXmppTransferManagerPrivate *md = attachMgrPrivate(m);
    QXmppTransferJobPrivate *jd = attachJobPrivate(job);
    const QString peer = vpSymString(C19_JIDLEN), sid = vpSymString(C19_SIDLEN), id = vpSymString(C19_IDLEN);
    const qint64 size = qint64(vp_u8());                     // announced size 0 (= not announced) .. 255
    const QByteArray hash = vpSymBytes(2), digest = vpSymBytes(2);
    jd->jid = peer; jd->sid = sid; jd->method = QXmppTransferJob::InBandMethod; jd->state = QXmppTransferJob::StartState;
    jd->fileInfo.setSize(size); jd->fileInfo.setHash(hash);
    jd->iodevice = theDevice();
    md->jobs.append(job);
    vp_c19_dev_init(theDevice(), true, false);
    vp_c19_set_digest(&digest);
    g_exp.to = peer; g_exp.id = id;

    QXmppIbbOpenIq open; open.setFrom(peer); open.setId(id); open.setSid(sid); open.setBlockSize(1);
    m->ibbOpenIqReceived(open);
    vp_assert(int(jd->state) == QXmppTransferJob::TransferState && g_sent.n == 1 && g_sent.types[0] == Y_RESULT, "C19 open from the peer for the accepted session starts the transfer");

    unsigned seq[2]; QByteArray pay[2];
    for (int k = 0; k < 2; k++) {
        seq[k] = vp_u16(); vp_c19_sym_bytes_n(&pay[k], 1);
        QXmppIbbDataIq d; d.setFrom(peer); d.setId(id); d.setSid(sid); d.setSequence(quint16(seq[k])); d.setPayload(pay[k]);
        m->ibbDataIqReceived(d);
    }
    QXmppIbbCloseIq close; close.setFrom(peer); close.setId(id); close.setSid(sid);
    m->ibbCloseIqReceived(close);

    const bool acc0 = seq[0] == 0, acc1 = seq[1] == (acc0 ? 1u : 0u);
    const unsigned count = (acc0 ? 1u : 0u) + (acc1 ? 1u : 0u);
    vp_assert(g_sent.n == 4 && g_sent.types[1] == (acc0 ? Y_RESULT : Y_ERROR) && g_sent.types[2] == (acc1 ? Y_RESULT : Y_ERROR) && g_sent.types[3] == Y_RESULT,
              "C19 blocks are acknowledged exactly when they arrive in sequence (counting from 0)");
    vp_assert(vp_c19_dev_wlen() == count && jd->done == qint64(count), "C19 exactly the in-sequence blocks are written");
    const unsigned char b0 = (unsigned char)pay[0].at(0), b1 = (unsigned char)pay[1].at(0);
    vp_assert(count < 1 || vp_c19_dev_wbyte(0) == (acc0 ? b0 : b1), "C19 the first byte on the device is the first accepted block");
    vp_assert(count < 2 || vp_c19_dev_wbyte(1) == b1, "C19 the second byte on the device is the second accepted block");
    const bool hashed = hash.size() > 0;
    vp_assert(vp_c19_hash_len(&jd->hash) == (hashed ? count : 0u) && (!hashed || count < 1 || vp_c19_hash_byte(&jd->hash, 0) == vp_c19_dev_wbyte(0)) && (!hashed || count < 2 || vp_c19_hash_byte(&jd->hash, 1) == vp_c19_dev_wbyte(1)),
              "C19 the running hash covers exactly the bytes on the device");
    const bool ok = (size == 0 || size == qint64(count)) && (!hashed || digest == hash);
    vp_assert(int(jd->state) == QXmppTransferJob::FinishedState && int(jd->error) == (ok ? int(QXmppTransferJob::NoError) : int(QXmppTransferJob::FileCorruptError)),
              "C19 after close: success exactly when size and hash of what was written match the announcement");
    // the property, for an announced two-block file: success implies both blocks arrived once, in order, and are on the device
    vp_assert(!(size == 2 && int(jd->error) == QXmppTransferJob::NoError) || (seq[0] == 0 && seq[1] == 1 && vp_c19_dev_wlen() == 2 && vp_c19_dev_wbyte(0) == b0 && vp_c19_dev_wbyte(1) == b1),
              "C19 a two-block transfer reported successful delivered both blocks, once each, in order");
}

// ------------------------------------------------------------------------------------------------ (7) a whole two-block transfer on the sender
// From the state the REAL constructor leaves (counter 0) once the peer accepted in-band transfer and the open request is
// outstanding: the peer acknowledges open, block 0, block 1 (each acknowledgement carries the then outstanding request id);
// the device yields two blocks and then end of data.
extern "C" void h_send2()
{
    internAttrs();
    static MgrU mu; static OutU ju;
    QXmppTransferManager *m = &mu.v; QXmppTransferOutgoingJob *job = &ju.v;
    QXmppTransferManagerPrivate *md = attachMgrPrivate(m);
    QXmppTransferJobPrivate *jd = attachJobPrivate(job);
    const QString peer = vpSymStringNonEmpty(C19_JIDLEN), sid = vpSymString(C19_SIDLEN), openId = vpSymString(C19_IDLEN);
    jd->direction = QXmppTransferJob::OutgoingDirection;
    jd->jid = peer; jd->sid = sid; jd->method = QXmppTransferJob::InBandMethod; jd->state = QXmppTransferJob::StartState;
    jd->requestId = openId; jd->blockSize = 1;
    jd->iodevice = theDevice();
    md->jobs.append(job);
    vp_c19_dev_init(theDevice(), true, false);
    g_exp.to = peer; g_exp.sid = sid; g_exp.idNow = &jd->requestId;

    QByteArray blk[3]; vp_c19_sym_bytes_n(&blk[0], 1); vp_c19_sym_bytes_n(&blk[1], 1); vp_c19_sym_bytes_n(&blk[2], 0);
    for (int k = 0; k < 3; k++) {
        vp_c19_dev_source(&blk[k]);
        g_exp.seq = QString::number(k); g_exp.payload = blk[k];
        QXmppIq ack; ack.setType(QXmppIq::Result); ack.setFrom(peer); ack.setId(jd->requestId);
        m->_q_iqReceived(ack);
        vp_assert(g_sent.n == k + 1 && g_sent.isIq && g_sent.type == Y_SET && g_sent.toOk && g_sent.idOk && g_sent.nsOk && g_sent.sidOk, "C19 every acknowledgement triggers exactly one further request of this session to the peer");
        vp_assert(g_sent.kind == (k < 2 ? K_DATA : K_CLOSE) && (k == 2 || (g_sent.seqOk && g_sent.payloadOk)), "C19 the blocks go out in device order numbered 0, 1, ... and the stream is closed at end of data");
        vp_assert(int(jd->state) == (k < 2 ? int(QXmppTransferJob::TransferState) : int(QXmppTransferJob::FinishedState)), "C19 the sender finishes exactly at end of data");
    }
    vp_assert(jd->done == 2 && int(jd->error) == QXmppTransferJob::NoError && vp_c19_nqueued() == 1 && vp_c19_dev_rcalls() == 3, "C19 the sender reports success after all blocks were acknowledged");
}
