def inst(name, entry, K, tiers, unwind, timeout=240):
    return dict(name=name, entry=entry, cxx=None, cdefs={}, unwind=unwind, tiers=tiers, timeout_s=timeout, mem_gb=6,
                cbmc_flags=['--memory-leak-check'], bound='K=%d nondeterministic operations' % K)
def group(K, tiers, insts):
    # ONE GROUP PER ENTRY: ll2c's explicit devirtualisation takes its candidates (std::function invokers/managers, one pair per
    # continuation lambda) from everything reachable in the translated program. Translating all entries together multiplied the
    # candidates at every indirect call of the schedule harnesses (measured: 17 s / 0.64 GB alone, 65 s / 2.3 GB with two more
    # entries, out of memory at 6 GB with eight more).
    return [dict(name='k%d_%s' % (K, e), harness='h.cpp', tus=['src/base/QXmppTask.cpp'], cxxdefs={'VP_K': K}, models=['models.c'],
                 instances=[inst('%s_K%d' % (e, K), 'h_' + e, K, tiers, K + 2)]) for e in insts]
def rel(name, case):
    d = inst('%s_c%d' % (name, case), 'h_' + name, 0, ('quick', 'thorough'), 4, 240); d['cdefs'] = {'VP_CASE': case}; d['cbmc_flags'] = []; d['bound'] = 'attach %s finish; continuation captures a copy of its own task' % ('before' if case else 'after'); return d
SPEC = dict(
    property='C13',
    groups=[
        dict(name='rel', harness='h.cpp', tus=['src/base/QXmppTask.cpp'], cxxdefs={'VP_K': 3}, models=['models.c'],
             instances=[rel(n, c) for n in ('release_conv', 'release_same', 'release_void') for c in (1,)]),
    ] + group(3, ('quick', 'thorough'), ['sched_int', 'sched_void', 'sched_uptr', 'sched_conv', 'sched_int_reenter', 'observers', 'reenter_void_then', 'reenter_int_refinish', 'reenter_uptr_refinish', 'reenter_observe'])
      + group(4, ('thorough',), ['sched_int', 'sched_void', 'sched_uptr', 'sched_conv', 'sched_int_reenter']),
    bounds=['K<=4 (quick) / K<=6 (thorough) nondeterministic operations from {copy task, then, finish, destroy context, drop task copy, drop/copy promise}', 'result types void, int, std::unique_ptr<int>, long finished with an int (converting finish(U&&))', 'at most 2 task copies and 2 promise copies'],
    assumptions=['then(ctx, f) is only called while ctx is alive (documented contract)', 'QPointer liveness is a ghost flag flipped by the harness (QtSharedPointer::ExternalRefCountData::getAndRef modelled)'],
    outside=['K beyond the bound', 'toFuture() (QFuture is Qt)'],
)
