/* C13: QPointer's reference-count block (libQt5Core) - liveness of the context object is a ghost flag */
struct erc { uint32_t weak; uint32_t strong; char *destroyer; };
static struct erc the_erc = { 1000, (uint32_t)-1, 0 };
uint32_t G_vp_ctx_alive = 1;
char* _ZN15QtSharedPointer20ExternalRefCountData9getAndRefEPK7QObject(char *o) { the_erc.weak++; return (char*)&the_erc; }
void vp_destroy_ctx(void) { the_erc.strong = 0; G_vp_ctx_alive = 0; }
