// C13 - nested then(): a continuation that is RUNNING with a value of a NON-void task attaches another continuation to the same
// task through another copy, and AFTERWARDS still uses the value it was given.  REAL QXmppPromise / QXmppTask (no shadow).
//
// What the statement + the documented contract of then() give, and what is asserted here:
//   (once)   the first continuation c1 runs exactly once, with the value the promise was finished with;
//   (alive)  the value handed to c1 is not destroyed while c1 runs (statement: "no use after free");
//   (single) the value object handed to c1 is not handed to a second continuation as well (then(): "If the task is already finished
//            ... (and still has a result), the function will be called immediately" - a value that was handed over is no result any more;
//            QXmppTask::isFinished(): "the result ... might have been ... handled using then()"); c2 itself runs at most once;
//   (intact) consequently c1 still reads the finished value after the nested then();
//   (leak)   after all handles are gone no value object and no continuation capture is left (ghost counters + --memory-leak-check).
// Nothing is asserted about WHETHER c2 runs when it does not get c1's object.
//
// Liveness is observed WITHOUT touching possibly freed memory: value types with a destructor (Obs) and the captures of the continuations
// (Cap) register their ADDRESS in ghost tables, unique_ptr<int, CountDel> counts deleter calls; c1 asks the ghost state first and does not
// read a destroyed value / closure, so that a failure is a PROP assertion that replays natively instead of a crash.  The plain int / long
// variants have nothing to observe: with the full claim they re-read the value UNGUARDED and cbmc's "dereference failure: deallocated
// dynamic object" check on the translated harness code is the detector (all instances run with safety_is_property; --pointer-check is on
// for the translated real code and the translated harness alike).
#include "QXmppPromise.h"
#include "QXmppTask.h"
#include <optional>
#include <memory>
#include "vp_harness.h"
extern "C" { extern int vp_ctx_alive; void vp_destroy_ctx(); }
#ifndef VP_K
#define VP_K 3
#endif

// ---- ghost state -------------------------------------------------------------------------------------------------------------
// Liveness is a question about ADDRESSES (is the object at this address registered as alive?), answered from ghost tables without reading
// the object - a continuation that is handed a destroyed value, or whose own closure was destroyed, notices it before it touches anything.
// Ids are handed out in construction order (concrete for symex); a table overflow is a bounds-check failure (inconclusive), never silent.
#define NSLOT 16
#define IN16(t, p) (t[0] == p || t[1] == p || t[2] == p || t[3] == p || t[4] == p || t[5] == p || t[6] == p || t[7] == p || \
                    t[8] == p || t[9] == p || t[10] == p || t[11] == p || t[12] == p || t[13] == p || t[14] == p || t[15] == p)
static int runs, got, got2, inner_runs, inner_got;
static int entryAlive = -1;                  // 1: the value object handed to c1 was alive when c1 started
static int aliveAfter = -1;                  // 1: ... and still alive after the nested then() returned; 0: destroyed; -1: c1 never got there
static int closureAlive = -1, closureAliveAfter = -1;   // the same two questions about c1's own closure (its captures)
static const void *outerObj, *innerObj;      // identity of the value object handed to c1 / c2
// captures of continuations
static unsigned capNext; static unsigned long long capLive; static const void *capAddr[NSLOT];
struct Cap { unsigned id;
    void reg() { id = capNext++; capAddr[id] = this; capLive |= 1ull << id; }
    Cap() { reg(); } Cap(const Cap &) { reg(); } Cap(Cap &&) noexcept { reg(); }
    ~Cap() { capAddr[id] = nullptr; capLive &= ~(1ull << id); } };
static bool capAliveAt(const void *p) { return IN16(capAddr, p); }

// value type 1: struct with a heap member
static unsigned obsNext; static unsigned long long obsLive; static const void *obsAddr[NSLOT];
struct ObsSrc { int payload; };              // source type of the converting finish(U&&), U != T
struct Obs {
    std::unique_ptr<int> heap; unsigned id;
    void reg() { id = obsNext++; obsAddr[id] = this; obsLive |= 1ull << id; }
    explicit Obs(int v) : heap(std::make_unique<int>(v)) { reg(); }
    Obs(ObsSrc &&s) : heap(std::make_unique<int>(s.payload)) { reg(); }
    Obs(Obs &&o) noexcept : heap(std::move(o.heap)) { reg(); }
    Obs(const Obs &) = delete;
    ~Obs() { obsAddr[id] = nullptr; obsLive &= ~(1ull << id); }
};
// value type 2: move-only pointer with a counting deleter (exactly one int is ever made per run)
static int delCalls;
struct CountDel { void operator()(int *p) const { delCalls++; delete p; } };
using UPtr = std::unique_ptr<int, CountDel>;

// observable: destruction of the value can be seen in ghost state.  aliveAt(x): decided WITHOUT reading x.
template<typename T> struct NV;
template<> struct NV<int> {
    static constexpr bool observable = false;
    static int make(int v) { return v; } static int read(int &x) { return x; }
    static bool aliveAt(int &) { return true; } static bool noneLeft() { return true; } };
template<> struct NV<long> {
    static constexpr bool observable = false;
    static long make(int v) { return v; } static int read(long &x) { return int(x); }
    static bool aliveAt(long &) { return true; } static bool noneLeft() { return true; } };
template<> struct NV<UPtr> {
    static constexpr bool observable = true;
    static UPtr make(int v) { return UPtr(new int(v)); } static int read(UPtr &x) { return x ? *x : -12345; }
    static bool aliveAt(UPtr &) { return delCalls == 0; }                              // the only int in play has not been deleted
    static bool noneLeft() { return delCalls == 1; } };                               // exactly one int was made, exactly one deleted
template<> struct NV<Obs> {
    static constexpr bool observable = true;
    static Obs make(int v) { return Obs(v); } static int read(Obs &x) { return x.heap ? *x.heap : -12345; }
    static bool aliveAt(Obs &x) { const void *p = &x; return IN16(obsAddr, p); }
    static bool noneLeft() { return obsLive == 0; } };
template<> struct NV<ObsSrc> { static ObsSrc make(int v) { return ObsSrc { v }; } };

// ---- the nested-then scenario ----------------------------------------------------------------------------------------------------
// VP_CASE bit 0: 1 = c1 attached BEFORE finish (value handed over by QXmppPromise::finish), 0 = c1 attached AFTER finish (value stored in the
//                shared record, handed over by QXmppTask::then itself)
// VP_CASE bit 1: 1 = full claim (alive, single, intact), 0 = only (once), c2 at most once, (leak) and the memory checks on the real code
// UNGUARDED: (full claim only) c1 re-reads its value after the nested then() without consulting a ghost flag (types without a destructor to observe)
template<typename T, typename U, bool UNGUARDED> static void nested()
{
    static char ctxbuf[16];
    QObject *ctx = reinterpret_cast<QObject *>(ctxbuf);
    const bool attachFirst = vp_case_bool(0), full = vp_case_bool(1);
    const bool steal = vp_bool();            // c2 is "a normal consumer": it may move the value out of what it is given
    int v = vp_int();
    {
        QXmppPromise<T> p; QXmppTask<T> t1 = p.task(); QXmppTask<T> t2 = t1;
        QXmppTask<T> *other = &t2;
        Cap cap;
        auto c1 = [other, ctx, steal, full, cap](T &&x) {
            runs++;
            // ghost questions first, by address only: nothing of a destroyed closure / value is read
            const void *self = &cap;
            closureAlive = capAliveAt(self) ? 1 : 0;
            if (!closureAlive) return;
            entryAlive = NV<T>::aliveAt(x) ? 1 : 0;
            if (!entryAlive) return;
            outerObj = &x; got = NV<T>::read(x);
            const bool fullClaim = full;     // local: not read from the closure later
            // (1) nested then() on ANOTHER copy of the same task, from inside the running continuation
            other->then(ctx, [steal, cap](T &&y) { inner_runs++; innerObj = &y; if (steal) { T taken = std::move(y); inner_got = NV<T>::read(taken); } });
            // (2) AFTERWARDS use the value this continuation was given
            closureAliveAfter = capAliveAt(self) ? 1 : 0;
            aliveAfter = NV<T>::aliveAt(x) ? 1 : 0;
            if (UNGUARDED ? fullClaim : aliveAfter == 1) got2 = NV<T>::read(x);
        };
        if (attachFirst) { t1.then(ctx, c1); p.finish(NV<U>::make(v)); } else { p.finish(NV<U>::make(v)); t1.then(ctx, c1); }
        vp_assert(runs == 1, "C13 a continuation that attaches another continuation while running runs exactly once");
        vp_assert(closureAlive == 1, "C13 a continuation (its captures) is alive when it is run (use after free)");
        vp_assert(entryAlive == 1, "C13 the value handed to a continuation is alive when the continuation starts (use after free)");
        vp_assert(got == v, "C13 the continuation receives the value the promise was finished with");
        vp_assert(inner_runs <= 1, "C13 a continuation attached from inside a running continuation runs at most once");
        vp_assert(closureAliveAfter == 1, "C13 a continuation (its captures) is not destroyed while it is running, even if it attaches another continuation (use after free)");
        if (full) {
            if (NV<T>::observable)
                vp_assert(aliveAfter == 1, "C13 the value handed to a continuation is not destroyed while that continuation is running (use after free)");
            vp_assert(!(inner_runs && innerObj == outerObj), "C13 a value already handed to a running continuation is not handed to a second continuation");
            if (aliveAfter == 1) vp_assert(got2 == v, "C13 the value stays intact while the continuation it was handed to is running");
        }
        vp_assert(t1.isFinished(), "C13 task is finished afterwards");
    }
    vp_assert(NV<T>::noneLeft(), "C13 every value object is released once all handles are dropped (no leak, no double release)");
    vp_assert(capLive == 0, "C13 continuations and their captures are released once all handles are dropped (no leak)");
}
extern "C" void h_nest_int() { nested<int, int, true>(); }                // finish(T&&)
extern "C" void h_nest_conv() { nested<long, int, true>(); }              // converting finish(U&&), U != T
extern "C" void h_nest_uptr() { nested<UPtr, UPtr, false>(); }            // move-only, counting deleter
extern "C" void h_nest_obs() { nested<Obs, Obs, false>(); }               // struct with heap member, destructor observed
extern "C" void h_nest_obs_conv() { nested<Obs, ObsSrc, false>(); }       // the same through the converting overload

// ---- schedule harness with the extra operation "then() from inside a running continuation" -------------------------------------------
// Same alphabet as h.cpp's schedule(); the attached continuation ALWAYS re-enters (if its context is alive) through a task copy that the
// harness keeps alive, and re-reads its value afterwards.  Value type Obs (liveness observable).
// The (alive)/(single)/(intact) claims are asserted for continuations that got their value from QXmppPromise::finish (attached before
// finish).  For a continuation attached AFTER finish they are decided by the nest_late_* instances (finding, see spec_nest.py) and are
// asserted here only with -DNEST_SCHED_LATE=1.
#ifndef NEST_SCHED_LATE
#define NEST_SCHED_LATE 0
#endif
template<typename T, typename U> static void scheduleNested()
{
    static char ctxbuf[16];
    QObject *ctx = reinterpret_cast<QObject *>(ctxbuf);
    std::optional<QXmppPromise<T>> p, p2; p.emplace();
    std::optional<QXmppTask<T>> t1, t2;
    t1.emplace(p->task());
    QXmppTask<T> keep = *t1;                 // the copy the running continuation re-enters through (never dropped by the schedule)
    QXmppTask<T> *other = &keep;
    int v = vp_int();
    bool attached = false, finished = false, aliveWhenReady = false, ready = false, early = false;
    for (int step = 0; step < VP_K; step++) {
        unsigned op = vp_u32() % 8;
        if (op == 0 && t1 && !t2) { t2.emplace(*t1); }
        else if (op == 1 && (t1 || t2) && !attached && vp_ctx_alive) {
            auto &t = t2 ? *t2 : *t1;
            early = !finished;
            t.then(ctx, [other, ctx](T &&x) {
                runs++;
                entryAlive = NV<T>::aliveAt(x) ? 1 : 0;
                if (!entryAlive) return;
                outerObj = &x; got = NV<T>::read(x);
                if (vp_ctx_alive) other->then(ctx, [](T &&y) { inner_runs++; innerObj = &y; T taken = std::move(y); inner_got = NV<T>::read(taken); });
                aliveAfter = NV<T>::aliveAt(x) ? 1 : 0;
                if (aliveAfter) got2 = NV<T>::read(x);
            });
            attached = true;
        }
        else if (op == 2 && (p || p2) && !finished) { (p2 ? *p2 : *p).finish(NV<U>::make(v)); finished = true; }
        else if (op == 3) { vp_destroy_ctx(); }
        else if (op == 4 && t1) { t1.reset(); }
        else if (op == 5 && p) { if (finished || p2) p.reset(); }
        else if (op == 6 && p && !p2) { p2.emplace(*p); }
        else if (op == 7 && t2) { t2.reset(); }
        if (attached && finished && !ready) { ready = true; aliveWhenReady = vp_ctx_alive; }
        vp_assert(runs <= 1, "C13 continuation never runs twice (re-entering schedule)");
    }
    vp_assert(runs == ((ready && aliveWhenReady) ? 1 : 0), "C13 continuation runs exactly once iff attached and finished while its context is alive (re-entering schedule)");
    if (runs) vp_assert(entryAlive == 1, "C13 the value handed to a continuation is alive when the continuation starts (re-entering schedule)");
    if (runs) vp_assert(got == v, "C13 continuation receives the value the promise was finished with (re-entering schedule)");
    vp_assert(inner_runs <= 1, "C13 a continuation attached from inside a running continuation runs at most once (schedule)");
    if (runs && (early || NEST_SCHED_LATE)) {
        vp_assert(aliveAfter == 1, "C13 the value handed to a continuation is not destroyed while that continuation is running (schedule)");
        vp_assert(!(inner_runs && innerObj == outerObj), "C13 a value already handed to a running continuation is not handed to a second continuation (schedule)");
        if (aliveAfter == 1) vp_assert(got2 == v, "C13 the value stays intact while the continuation it was handed to is running (schedule)");
    }
}
template<typename T, typename U> static void scheduleNestedOuter()
{
    scheduleNested<T, U>();                  // all handles (incl. `keep`) are gone when this returns
    vp_assert(NV<T>::noneLeft(), "C13 every value object is released once all handles are dropped (re-entering schedule)");
}
extern "C" void h_nest_sched_obs() { scheduleNestedOuter<Obs, Obs>(); }
extern "C" void h_nest_sched_obs_conv() { scheduleNestedOuter<Obs, ObsSrc>(); }
