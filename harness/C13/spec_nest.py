# C13, topic "nest": a continuation that is running with a value of a NON-void task calls then() on another copy of the same task and
# afterwards still uses its value (seeded change C13-4 was missed by the existing reenter_* / sched_* instances).  Harness: nest_h.cpp.
import os
# The late-attach instances with the full claim exposed a genuine defect of the library (fixed since, see known_findings.txt).
FINDING_TIERS = ('quick', 'thorough')   # the defect these instances exposed (late-attach then() under re-entry) is fixed in /repo: they run as regressions
Q = ('quick', 'thorough')

def ninst(name, entry, case, tiers, bound, safety=False, timeout=180):
    d = dict(name=name, entry=entry, cdefs={'VP_CASE': case}, unwind=4, tiers=tiers, timeout_s=timeout, mem_gb=4,
             cbmc_flags=['--memory-leak-check'], bound=bound)
    d['safety_is_property'] = True   # statement: "no use after free": a memory-safety failure of cbmc in the translated real or harness code counts (it still has to replay as a PROP failure)
    return d

def ngroup(short, entry, what, safety, late=True):
    # one group per entry (see spec.py: the devirtualisation candidates of all translated entries add up)
    early = 'c1 attached BEFORE finish, nested then() on a second task copy inside c1, value re-read afterwards; c2 steals or not (symbolic); %s' % what
    latew = 'c1 attached AFTER finish, nested then() inside c1: exactly-once, value, c2 at most once, release, memory checks on the real code; %s' % what
    latef = 'c1 attached AFTER finish, nested then() inside c1: full claim (alive, single hand-over, intact); %s' % what
    insts = [ninst('nest_early_%s' % short, entry, 3, Q, early, safety)]
    if late:
        insts += [ninst('nest_late_%s_once' % short, entry, 0, Q, latew, safety),
                  ninst('nest_late_%s_full' % short, entry, 2, FINDING_TIERS, latef, safety)]
    return dict(name='nest_%s' % short, harness='nest_h.cpp', tus=['src/base/QXmppTask.cpp'], cxxdefs={'VP_K': 3}, models=['models.c'], instances=insts)

def sgroup(short, entry, K, tiers, timeout, late=0):
    # late=1: the (alive, single hand-over, intact) claims are asserted for a continuation attached AFTER finish as well (fails: finding)
    nm = 'nest_sched_%s%s_K%d' % (short, '_late' if late else '', K)
    d = dict(name=nm, harness='nest_h.cpp', tus=['src/base/QXmppTask.cpp'], cxxdefs={'VP_K': K, 'NEST_SCHED_LATE': late}, models=['models.c'],
             instances=[dict(name=nm, entry=entry, cdefs={}, unwind=K + 2, tiers=tiers, timeout_s=timeout, mem_gb=8, safety_is_property=True,
                             cbmc_flags=['--memory-leak-check'],
                             bound='K=%d nondeterministic operations; the attached continuation always re-enters then() through a kept task copy and re-reads its value' % K)])
    return d

GROUPS = [
    ngroup('int', 'h_nest_int', 'T=int, finish(T&&)', True),
    ngroup('conv', 'h_nest_conv', 'T=long finished with an int: converting finish(U&&)', True, late=False),
    ngroup('uptr', 'h_nest_uptr', 'T=std::unique_ptr<int, counting deleter>', False),
    ngroup('obs', 'h_nest_obs', 'T=struct with a heap member whose destructor is observed (ghost liveness mask)', False),
    ngroup('obs_conv', 'h_nest_obs_conv', 'T=that struct, finished with a source struct: converting finish(U&&)', False, late=False),
    sgroup('obs', 'h_nest_sched_obs', 3, ('thorough',), 300),
    sgroup('obs_conv', 'h_nest_sched_obs_conv', 3, ('thorough',), 300),
    sgroup('obs', 'h_nest_sched_obs', 3, FINDING_TIERS, 300, late=1),
]
BOUNDS = ['nest_*: one nested then() (depth 1) from inside the first continuation, through a second copy of the task; value types int, long<-int, '
          'std::unique_ptr<int, counting deleter>, a struct with a heap member (also through the converting finish overload)',
          'nest_sched_*: K=3 operations of the sched_* alphabet, the attached continuation always re-enters then() (context alive) through a task copy that outlives the schedule']
ASSUMPTIONS = ['the nested then() is called with a live context (documented contract), on a copy of the task that stays alive while the outer continuation runs']
OUTSIDE = ['nested then() at depth > 1; takeResult()/result() from inside a running continuation',
           'late-attach path (c1 attached after finish) with a nested then(): the full claim is decided by nest_late_*_full, which are NOT registered in a tier because '
           'they fail on the unchanged library (QXmppTask::then hands the stored value to the nested continuation as well and frees it while c1 is running); '
           'the registered nest_late_*_once instances and nest_sched_* assert everything else on that path']
