// C13 - schedule harness over the REAL QXmppPromise / QXmppTask (no shadow).
#include "QXmppPromise.h"
#include "QXmppTask.h"
#include <optional>
#include <memory>
#include "vp_harness.h"
extern "C" { extern int vp_ctx_alive; void vp_destroy_ctx(); }
#ifndef VP_K
#define VP_K 4
#endif
static int runs, got, inner_runs;

template<typename T> struct Val;
template<> struct Val<int> { static int make(int v) { return v; } static int read(int &x) { return x; } };
template<> struct Val<long> { static long make(int v) { return v; } static int read(long &x) { return int(x); } };
template<> struct Val<std::unique_ptr<int>> {
    static std::unique_ptr<int> make(int v) { return std::make_unique<int>(v); }
    static int read(std::unique_ptr<int> &x) { return x ? *x : -12345; } };

// K nondeterministic operations on one promise, up to two task copies, up to two promise copies.
// U = type handed to finish(): U == T takes finish(T&&), U != T (convertible) takes the CONVERTING overload finish(U&&) (seed C13-3)
template<typename T, typename U = T> static void schedule(bool reenter)
{
    static char ctxbuf[16];
    QObject *ctx = reinterpret_cast<QObject *>(ctxbuf);
    std::optional<QXmppPromise<T>> p, p2; p.emplace();
    std::optional<QXmppTask<T>> t1, t2;
    t1.emplace(p->task());
    int v = vp_int();
    bool attached = false, finished = false, aliveWhenReady = false, ready = false;
    for (int step = 0; step < VP_K; step++) {
        unsigned op = vp_u32() % 8;
        if (op == 0 && t1 && !t2) { t2.emplace(*t1); }                                   // copy the task
        else if (op == 1 && (t1 || t2) && !attached && vp_ctx_alive) {                     // attach continuation via some copy
            auto &t = t2 ? *t2 : *t1;
            if (reenter && t1 && t2) {
                // the continuation re-enters: attaches another continuation through the other copy while running
                QXmppTask<T> *other = &*t1;
                t.then(ctx, [other, ctx](T &&x) { runs++; got = Val<T>::read(x);
                    if (vp_ctx_alive) other->then(ctx, [](T &&) { inner_runs++; }); });
            } else {
                t.then(ctx, [](T &&x) { runs++; got = Val<T>::read(x); });
            }
            attached = true;
        }
        else if (op == 2 && (p || p2) && !finished) { (p2 ? *p2 : *p).finish(Val<U>::make(v)); finished = true; }
        else if (op == 3) { vp_destroy_ctx(); }                                             // context object destroyed
        else if (op == 4 && t1 && !(reenter && attached && !ready)) { t1.reset(); }         // drop a task copy (kept alive while a re-entrant continuation refers to it)
        else if (op == 5 && p) { if (finished || p2) p.reset(); }                           // drop a promise copy
        else if (op == 6 && p && !p2) { p2.emplace(*p); }                                   // copy the promise
        else if (op == 7 && t2) { t2.reset(); }
        if (attached && finished && !ready) { ready = true; aliveWhenReady = vp_ctx_alive; }
        vp_assert(runs <= 1, "C13 continuation never runs twice");
    }
    vp_assert(runs == ((ready && aliveWhenReady) ? 1 : 0), "C13 continuation runs exactly once iff attached and finished while its context is alive");
    if (runs) vp_assert(got == v, "C13 continuation receives the value the promise was finished with");
    vp_assert(inner_runs <= 1, "C13 a continuation attached re-entrantly runs at most once");
    // release everything: afterwards no handle is left; leak / use-after-free are cbmc's memory checks
    t1.reset(); t2.reset(); p.reset(); p2.reset();
}
extern "C" void h_sched_int() { schedule<int>(false); }
extern "C" void h_sched_uptr() { schedule<std::unique_ptr<int>>(false); }
extern "C" void h_sched_int_reenter() { schedule<int>(true); }
extern "C" void h_sched_conv() { schedule<long, int>(false); }       // promise of long finished with an int: converting overload

// void specialisation has a different continuation signature
extern "C" void h_sched_void()
{
    static char ctxbuf[16];
    QObject *ctx = reinterpret_cast<QObject *>(ctxbuf);
    std::optional<QXmppPromise<void>> p, p2; p.emplace();
    std::optional<QXmppTask<void>> t1, t2;
    t1.emplace(p->task());
    bool attached = false, finished = false, aliveWhenReady = false, ready = false;
    for (int step = 0; step < VP_K; step++) {
        unsigned op = vp_u32() % 8;
        if (op == 0 && t1 && !t2) { t2.emplace(*t1); }
        else if (op == 1 && (t1 || t2) && !attached && vp_ctx_alive) { auto &t = t2 ? *t2 : *t1; t.then(ctx, []() { runs++; }); attached = true; }
        else if (op == 2 && (p || p2) && !finished) { (p2 ? *p2 : *p).finish(); finished = true; }
        else if (op == 3) { vp_destroy_ctx(); }
        else if (op == 4 && t1) { t1.reset(); }
        else if (op == 5 && p) { if (finished || p2) p.reset(); }
        else if (op == 6 && p && !p2) { p2.emplace(*p); }
        else if (op == 7 && t2) { t2.reset(); }
        if (attached && finished && !ready) { ready = true; aliveWhenReady = vp_ctx_alive; }
        vp_assert(runs <= 1, "C13 continuation never runs twice (void)");
    }
    vp_assert(runs == ((ready && aliveWhenReady) ? 1 : 0), "C13 continuation runs exactly once iff attached and finished while its context is alive (void)");
    t1.reset(); t2.reset(); p.reset(); p2.reset();
}

// state observers: isFinished / hasResult agree with the history
extern "C" void h_observers()
{
    static char ctxbuf[16];
    QObject *ctx = reinterpret_cast<QObject *>(ctxbuf);
    QXmppPromise<int> p; auto t = p.task(); int v = vp_int();
    vp_assert(!t.isFinished() && !t.hasResult(), "C13 fresh task is unfinished");
    bool first = vp_bool();
    if (first) {
        t.then(ctx, [](int &&x) { runs++; got = x; });
        p.finish(int(v));
        vp_assert(t.isFinished(), "C13 finished after finish()");
        vp_assert(!t.hasResult(), "C13 value handed to the continuation is not stored as well");
    } else {
        p.finish(int(v));
        vp_assert(t.isFinished() && t.hasResult(), "C13 value stored until a continuation takes it");
        t.then(ctx, [](int &&x) { runs++; got = x; });
        vp_assert(!t.hasResult(), "C13 stored value is consumed by then()");
    }
    vp_assert(runs == 1 && got == v, "C13 exactly once with the value");
}

// ---- re-entry from inside the continuation (quantifier: "re-enter from inside the continuation") -------------------------------
// (a) void result: a continuation attached from inside the running continuation (through another task copy) runs exactly once, now.
extern "C" void h_reenter_void_then()
{
    static char ctxbuf[16];
    QObject *ctx = reinterpret_cast<QObject *>(ctxbuf);
    QXmppPromise<void> p; QXmppTask<void> t1 = p.task(); QXmppTask<void> t2 = t1;
    QXmppTask<void> *other = &t2;
    bool attachFirst = vp_bool();
    auto outer = [other, ctx]() { runs++; other->then(ctx, []() { inner_runs++; }); };
    if (attachFirst) { t1.then(ctx, outer); p.finish(); } else { p.finish(); t1.then(ctx, outer); }
    vp_assert(runs == 1, "C13 continuation runs exactly once (void, re-entrant)");
    vp_assert(inner_runs == 1, "C13 a continuation attached from inside the running continuation runs exactly once (void)");
}
// (b) a second completion arriving while the first is being handled, guarded by the library's own idiom
//     `if (!task.isFinished()) promise.finish(...)`, must not run the continuation again.
template<typename T> static void reenterRefinish()
{
    static char ctxbuf[16];
    QObject *ctx = reinterpret_cast<QObject *>(ctxbuf);
    QXmppPromise<T> p; QXmppTask<T> t = p.task();
    QXmppPromise<T> *pp = &p; QXmppTask<T> *tp = &t;
    int v = vp_int(), v2 = vp_int();
    bool attachFirst = vp_bool();
    auto cont = [pp, tp, v2](T &&x) { runs++; if (runs == 1) got = Val<T>::read(x);
        if (runs < 3 && !tp->isFinished()) pp->finish(Val<T>::make(v2)); };          // capped: a broken implementation would recurse forever
    if (attachFirst) { t.then(ctx, cont); p.finish(Val<T>::make(v)); } else { p.finish(Val<T>::make(v)); t.then(ctx, cont); }
    vp_assert(runs == 1, "C13 continuation runs exactly once although a guarded second finish happens inside it");
    vp_assert(got == v, "C13 continuation receives the value of the first finish");
    vp_assert(t.isFinished(), "C13 task is finished afterwards");
}
extern "C" void h_reenter_int_refinish() { reenterRefinish<int>(); }
extern "C" void h_reenter_uptr_refinish() { reenterRefinish<std::unique_ptr<int>>(); }
// (c) observers from inside the continuation: the task already counts as finished while its continuation runs
extern "C" void h_reenter_observe()
{
    static char ctxbuf[16];
    QObject *ctx = reinterpret_cast<QObject *>(ctxbuf);
    QXmppPromise<int> p; QXmppTask<int> t = p.task(); QXmppTask<int> *tp = &t;
    static bool finishedInside; int v = vp_int();
    bool attachFirst = vp_bool();
    auto cont = [tp](int &&x) { runs++; got = x; finishedInside = tp->isFinished(); };
    if (attachFirst) { t.then(ctx, cont); p.finish(int(v)); } else { p.finish(int(v)); t.then(ctx, cont); }
    vp_assert(runs == 1 && got == v, "C13 exactly once with the value");
    vp_assert(finishedInside, "C13 the task is finished (no second completion possible) while its continuation runs");
}

// ---- release of continuations and captures (no leak), for all three finish() overloads ---------------------------------------
// The continuation captures a copy of its OWN task (the reference cycle QXmppTask::then guards against by clearing the stored
// continuation after it ran) and a counted Tracker. After every handle is gone nothing may be left alive.
static int alive;
struct Tracker { Tracker() { alive++; } Tracker(const Tracker &) { alive++; } Tracker(Tracker &&) noexcept { alive++; } ~Tracker() { alive--; } };
template<typename T, typename U> static void releaseCheck()
{
    static char ctxbuf[16];
    QObject *ctx = reinterpret_cast<QObject *>(ctxbuf);
    int v = vp_int();
    bool attachFirst = vp_case_bool(0);
    {
        QXmppPromise<T> p; QXmppTask<T> t = p.task();
        Tracker tr; QXmppTask<T> self = t;
        auto cont = [tr, self](T &&x) { runs++; got = (int)x; };
        if (attachFirst) { t.then(ctx, cont); p.finish(U(v)); } else { p.finish(U(v)); t.then(ctx, cont); }
        vp_assert(runs == 1 && got == (int)T(U(v)), "C13 exactly once with the value (converting / same-type finish)");
    }
    vp_assert(alive == 0, "C13 continuation and its captures are released once all handles are dropped (no leak)");
}
extern "C" void h_release_conv() { releaseCheck<long, int>(); }      // finish(U&&) with U convertible to T, U != T
extern "C" void h_release_same() { releaseCheck<int, int>(); }       // finish(T&&)
extern "C" void h_release_void()
{
    static char ctxbuf[16];
    QObject *ctx = reinterpret_cast<QObject *>(ctxbuf);
    bool attachFirst = vp_case_bool(0);
    {
        QXmppPromise<void> p; QXmppTask<void> t = p.task();
        Tracker tr; QXmppTask<void> self = t;
        auto cont = [tr, self]() { runs++; };
        if (attachFirst) { t.then(ctx, cont); p.finish(); } else { p.finish(); t.then(ctx, cont); }
        vp_assert(runs == 1, "C13 exactly once (void)");
    }
    vp_assert(alive == 0, "C13 continuation and its captures are released once all handles are dropped (no leak, void)");
}
