#!/usr/bin/env python3
"""ll2c prototype: LLVM-14 textual IR (typed pointers) -> C for CBMC / gcc.
Usage: ll2c.py in.ll out.c --entry f1,f2 [--models models.c]
All pointers become char*; aggregates become C structs by value."""
import re, sys, os, hashlib, argparse, subprocess

# ---------------------------------------------------------------- types
class T: pass
class IntT(T):
    def __init__(s, b): s.bits = b
    def key(s): return 'i%d' % s.bits
class FloatT(T):
    def __init__(s, k): s.k = k
    def key(s): return s.k
class PtrT(T):
    def __init__(s, to): s.to = to
    def key(s): return 'p'
class ArrT(T):
    def __init__(s, n, e): s.n = n; s.e = e
    def key(s): return '[%d x %s]' % (s.n, s.e.key())
class StructT(T):
    def __init__(s, fs, packed): s.fs = fs; s.packed = packed
    def key(s): return ('<{%s}>' if s.packed else '{%s}') % ','.join(f.key() for f in s.fs)
class NamedT(T):
    def __init__(s, n): s.n = n
    def key(s): return '%' + s.n
class VoidT(T):
    def key(s): return 'void'
class FuncT(T):
    def __init__(s, r, ps, va): s.r = r; s.ps = ps; s.va = va
    def key(s): return 'fn'
class VecT(T):
    def __init__(s, n, e): s.n = n; s.e = e
    def key(s): return '<%d x %s>' % (s.n, s.e.key())
class OtherT(T):
    def __init__(s, k): s.k = k
    def key(s): return s.k

class Unsupported(Exception): pass
WORD_STORAGE = True

# ---------------------------------------------------------------- scanner
IDCH = re.compile(r'[-a-zA-Z$._0-9]')
class Sc:
    def __init__(s, txt): s.t = txt; s.i = 0
    def ws(s):
        while s.i < len(s.t) and s.t[s.i] in ' \t\n': s.i += 1
    def eof(s): s.ws(); return s.i >= len(s.t)
    def peek(s, k=1): s.ws(); return s.t[s.i:s.i + k]
    def acc(s, lit):
        s.ws()
        if s.t.startswith(lit, s.i):
            e = s.i + len(lit)
            if lit[-1].isalnum() and e < len(s.t) and (s.t[e].isalnum() or s.t[e] in '_.'): return False
            s.i = e; return True
        return False
    def exp(s, lit):
        if not s.acc(lit): raise SyntaxError('expected %r at %r' % (lit, s.t[s.i:s.i + 60]))
    def word(s):
        s.ws(); j = s.i
        while j < len(s.t) and IDCH.match(s.t[j]): j += 1
        w = s.t[s.i:j]; s.i = j; return w
    def name(s):  # after % or @ ; returns raw name
        if s.t[s.i] == '"':
            j = s.i + 1
            while s.t[j] != '"': j += 1
            n = s.t[s.i + 1:j]; s.i = j + 1; return n
        return s.word()
    def rest(s): return s.t[s.i:]

def parse_type(s):
    s.ws()
    c = s.peek()
    if c == '%':
        s.i += 1; t = NamedT(s.name())
    elif c == '{':
        s.i += 1; fs = []
        if not s.acc('}'):
            while True:
                fs.append(parse_type(s))
                if s.acc('}'): break
                s.exp(',')
        t = StructT(fs, False)
    elif s.peek(2) == '<{':
        s.i += 2; fs = []
        if not s.acc('}>'):
            while True:
                fs.append(parse_type(s))
                if s.acc('}>'): break
                s.exp(',')
        t = StructT(fs, True)
    elif c == '[':
        s.i += 1; n = int(s.word()); s.exp('x'); e = parse_type(s); s.exp(']'); t = ArrT(n, e)
    elif c == '<':
        s.i += 1; n = int(s.word()); s.exp('x'); e = parse_type(s); s.exp('>'); t = VecT(n, e)
    else:
        w = s.word()
        if re.fullmatch(r'i\d+', w): t = IntT(int(w[1:]))
        elif w in ('float', 'double', 'half', 'x86_fp80', 'fp128'): t = FloatT(w)
        elif w == 'void': t = VoidT()
        elif w in ('label', 'metadata', 'token', 'opaque'): t = OtherT(w)
        else: raise SyntaxError('type? %r at %r' % (w, s.t[max(0,s.i-40):s.i + 40]))
    while True:
        s.ws()
        if s.peek() == '*':
            s.i += 1; t = PtrT(t)
        elif s.peek() == '(':
            s.i += 1; ps = []; va = False
            if not s.acc(')'):
                while True:
                    if s.acc('...'): va = True
                    else: ps.append(parse_type(s))
                    if s.acc(')'): break
                    s.exp(',')
            t = FuncT(t, ps, va)
        elif s.acc('addrspace'):
            s.exp('('); s.word(); s.exp(')')
        else: break
    return t

# values: ('loc',name) ('glob',name) ('int',v) ('null',) ('undef',) ('zero',) ('agg',[ (t,v) ]) ('str',bytes)
# ('cexpr',op,...) ('float',text)
CASTS = ('bitcast', 'ptrtoint', 'inttoptr', 'trunc', 'zext', 'sext', 'addrspacecast')
def parse_value(s, ty):
    s.ws(); c = s.peek()
    if c == '%': s.i += 1; return ('loc', s.name())
    if c == '@': s.i += 1; return ('glob', s.name())
    if c == '{' or s.peek(2) == '<{' or c == '[':
        close = {'{': '}', '[': ']'}.get(c, '}>')
        s.i += len(close); els = []
        if not s.acc(close):
            while True:
                t = parse_type(s); els.append((t, parse_value(s, t)))
                if s.acc(close): break
                s.exp(',')
        return ('agg', els)
    if s.peek(2) == 'c"':
        s.i += 2; out = bytearray()
        while s.t[s.i] != '"':
            if s.t[s.i] == '\\':
                if s.t[s.i + 1] == '\\': out.append(0x5c); s.i += 2; continue
                out.append(int(s.t[s.i + 1:s.i + 3], 16)); s.i += 3
            else:
                out.append(ord(s.t[s.i])); s.i += 1
        s.i += 1; return ('str', bytes(out))
    if c == '<': raise Unsupported('vector constant')
    m = re.match(r'-?\d+\.\d*(e[+-]?\d+)?|0x[KLMH]?[0-9A-Fa-f]+', s.t[s.i:])
    if m and (isinstance(ty, FloatT)):
        s.i += m.end(); return ('float', m.group(0))
    m = re.match(r'-?\d+', s.t[s.i:])
    if m: s.i += m.end(); return ('int', int(m.group(0)))
    w = s.word()
    if w == 'true': return ('int', 1)
    if w == 'false': return ('int', 0)
    if w == 'null': return ('null',)
    if w in ('undef', 'poison'): return ('undef',)
    if w == 'zeroinitializer': return ('zero',)
    if w == 'getelementptr':
        s.acc('inbounds'); s.exp('('); bt = parse_type(s); s.exp(',')
        pt = parse_type(s); pv = parse_value(s, pt); idx = []
        while s.acc(','):
            s.acc('inrange'); it = parse_type(s); idx.append((it, parse_value(s, it)))
        s.exp(')'); return ('cgep', bt, pv, idx)
    if w in CASTS:
        s.exp('('); ft = parse_type(s); v = parse_value(s, ft); s.exp('to'); tt = parse_type(s); s.exp(')')
        return ('ccast', w, ft, v, tt)
    if w in ('add', 'sub', 'mul', 'and', 'or', 'xor', 'shl', 'lshr', 'ashr'):
        while s.acc('nuw') or s.acc('nsw') or s.acc('exact'): pass
        s.exp('('); t1 = parse_type(s); a = parse_value(s, t1); s.exp(','); t2 = parse_type(s); b = parse_value(s, t2); s.exp(')')
        return ('cbin', w, t1, a, b)
    if w == 'icmp':
        p = s.word(); s.exp('('); t1 = parse_type(s); a = parse_value(s, t1); s.exp(','); t2 = parse_type(s); b = parse_value(s, t2); s.exp(')')
        return ('cicmp', p, t1, a, b)
    if w == 'select':
        s.exp('('); t0 = parse_type(s); c0 = parse_value(s, t0); s.exp(','); t1 = parse_type(s); a = parse_value(s, t1); s.exp(','); t2 = parse_type(s); b = parse_value(s, t2); s.exp(')')
        return ('csel', c0, t1, a, b)
    if w == 'blockaddress': raise Unsupported('blockaddress')
    raise SyntaxError('value? %r at %r' % (w, s.t[max(0, s.i - 60):s.i + 40]))

ATTR_PAREN = ('dereferenceable', 'dereferenceable_or_null', 'byval', 'sret', 'align', 'inalloca', 'preallocated', 'elementtype', 'byref', 'allocsize', 'vscale_range')
ATTR_WORDS = set('noundef nonnull nocapture readonly readnone writeonly zeroext signext noalias inreg returned immarg nofree nest swiftself swifterror nonlazybind swiftasync'.split())
def skip_param_attrs(s):
    """returns dict of interesting attrs (byval type, sret)"""
    info = {}
    while True:
        s.ws(); save = s.i
        w = s.word()
        if w in ATTR_WORDS: continue
        if w == 'align':
            s.ws()
            if s.peek() == '(': s.exp('('); s.word(); s.exp(')')
            else: s.word()
            continue
        if w in ATTR_PAREN:
            s.exp('(')
            if w in ('byval', 'sret', 'inalloca', 'preallocated', 'elementtype', 'byref'):
                info[w] = parse_type(s)
            else:
                s.word()
                if s.acc(','): s.word()
            s.exp(')'); continue
        s.i = save; return info

# ---------------------------------------------------------------- module
class Func:
    def __init__(s): s.blocks = []; s.params = []; s.vararg = False
class Module:
    def __init__(s): s.types = {}; s.globals = {}; s.funcs = {}; s.order = []; s.ctors = []

def strip_meta(line):
    # drop trailing metadata attachments and comments
    line = re.sub(r';[^"]*$', '', line) if '"' not in line else re.sub(r'\s;\s[^"]*$', '', line)
    line = re.sub(r'(,\s*![a-zA-Z_.0-9]+\s+![0-9]+)+\s*$', '', line)
    line = re.sub(r'(\s+![a-zA-Z_.0-9]+\s+![0-9]+)+\s*$', '', line)
    return line.rstrip()

LINK = set('private internal available_externally linkonce weak common appending extern_weak linkonce_odr weak_odr external dso_local dso_preemptable default hidden protected unnamed_addr local_unnamed_addr thread_local externally_initialized'.split())

def parse_module(path):
    m = Module()
    lines = open(path).read().split('\n')
    i = 0
    while i < len(lines):
        ln = lines[i]; i += 1
        if not ln or ln[0] in ';!' or ln.startswith(('source_filename', 'target ', 'attributes ', '$')): continue
        if ln[0] == '%':
            s = Sc(ln); s.i = 1; n = s.name(); s.exp('='); s.exp('type')
            if s.acc('opaque'): m.types[n] = None
            else: m.types[n] = parse_type(s)
            continue
        if ln[0] == '@':
            ln = strip_meta(ln)
            s = Sc(ln); s.i = 1; n = s.name(); s.exp('=')
            ext = False
            while True:
                save = s.i; w = s.word()
                if w in LINK:
                    if w in ('external', 'extern_weak'): ext = True
                    if w == 'thread_local' and s.peek() == '(': s.exp('('); s.word(); s.exp(')')
                    continue
                s.i = save; break
            if s.acc('alias') or s.acc('ifunc'):
                # alias: treat as forwarding name
                while True:
                    save = s.i; w = s.word()
                    if w in LINK: continue
                    s.i = save; break
                t = parse_type(s); s.exp(','); t2 = parse_type(s); v = parse_value(s, t2)
                m.globals[n] = dict(alias=v, ty=t); continue
            s.acc('addrspace')
            const = s.acc('constant')
            if not const: s.exp('global')
            t = parse_type(s)
            init = None
            if not ext:
                init = parse_value(s, t)
            m.globals[n] = dict(ty=t, init=init, const=const, ext=ext)
            continue
        if ln.startswith('declare') or ln.startswith('define'):
            isdef = ln.startswith('define')
            hdr = ln
            s = Sc(hdr); s.word()
            while True:
                save = s.i; w = s.word()
                if w in LINK or w in ('fastcc', 'ccc', 'coldcc', 'tailcc') : continue
                s.i = save; break
            skip_param_attrs(s)
            rt = parse_type(s); s.ws(); assert s.peek() == '@', hdr; s.i += 1; n = s.name()
            f = Func(); f.name = n; f.ret = rt; f.isdef = isdef
            s.exp('(')
            if not s.acc(')'):
                while True:
                    if s.acc('...'): f.vararg = True
                    else:
                        pt = parse_type(s); info = skip_param_attrs(s); s.ws()
                        pn = None
                        if s.peek() == '%': s.i += 1; pn = s.name()
                        f.params.append((pt, pn, info))
                    if s.acc(')'): break
                    s.exp(',')
            if isdef:
                body = []
                while lines[i] != '}':
                    body.append(lines[i]); i += 1
                i += 1
                f.body = body
            m.funcs[n] = f; m.order.append(n)
            continue
    return m

# ---------------------------------------------------------------- C emission
def cid(n):
    if re.fullmatch(r'[A-Za-z_][A-Za-z0-9_]*', n): return n
    h = hashlib.md5(n.encode()).hexdigest()[:8]
    return re.sub(r'[^A-Za-z0-9_]', '_', n)[:60] + '_' + h

class Emitter:
    def __init__(s, m):
        s.m = m; s.tdefs = {}; s.torder = []; s.tstate = {}; s.in_union = False
        cnt = {}
        for n in m.types:
            k = re.sub(r'[^A-Za-z0-9_]', '_', n); cnt[k] = cnt.get(k, 0) + 1
        s.tnames = {}
        for n in m.types:
            k = re.sub(r'[^A-Za-z0-9_]', '_', n)
            s.tnames[n] = k if cnt[k] == 1 and len(k) <= 120 else cid(n + '!')
    def tname(s, n): return s.tnames.get(n) or cid(n + '!')
    # ---- types
    def resolve(s, t):
        while isinstance(t, NamedT):
            t2 = s.m.types.get(t.n)
            if t2 is None: return t
            return t  # keep named
        return t
    def ctype(s, t):
        if isinstance(t, IntT):
            b = t.bits
            if b <= 8: return 'uint8_t'
            if b <= 16: return 'uint16_t'
            if b <= 32: return 'uint32_t'
            if b <= 64: return 'uint64_t'
            if b <= 128: return 'unsigned __int128'
            raise Unsupported('int width %d' % b)
        if isinstance(t, FloatT):
            if t.k == 'float': return 'float'
            if t.k == 'double': return 'double'
            if t.k == 'x86_fp80': return 'long double'
            raise Unsupported('float kind ' + t.k)
        if isinstance(t, (PtrT, FuncT)): return 'char*'
        if isinstance(t, VoidT): return 'void'
        if isinstance(t, NamedT):
            body = s.m.types.get(t.n)
            nm = 'struct T_' + s.tname(t.n)
            if nm not in s.tstate:
                s.tstate[nm] = 'busy'
                if body is None:
                    s.tdefs[nm] = nm + ' { char opaque_; };'
                else:
                    s.in_union = t.n.startswith('union.')
                    s.tdefs[nm] = s.struct_def(nm, body)
                    s.in_union = False
                s.torder.append(nm); s.tstate[nm] = 'done'
            return nm
        if isinstance(t, StructT):
            nm = 'struct L_' + hashlib.md5(t.key().encode()).hexdigest()[:10]
            if nm not in s.tstate:
                s.tstate[nm] = 'busy'; s.tdefs[nm] = s.struct_def(nm, t); s.torder.append(nm); s.tstate[nm] = 'done'
            return nm
        if isinstance(t, ArrT):
            nm = 'struct A_' + hashlib.md5(t.key().encode()).hexdigest()[:10]
            if nm not in s.tstate:
                s.tstate[nm] = 'busy'
                et = s.ctype(t.e)
                s.tdefs[nm] = '%s { %s a[%d]; };' % (nm, et, t.n); s.torder.append(nm); s.tstate[nm] = 'done'
            return nm
        if isinstance(t, VecT): raise Unsupported('vector type')
        raise Unsupported('type ' + t.key())
    def lalign(s, t):
        """ABI alignment of an LLVM type (x86-64 data layout)"""
        if isinstance(t, IntT):
            b = (t.bits + 7) // 8; a = 1
            while a < b: a *= 2
            return min(a, 16)
        if isinstance(t, PtrT): return 8
        if isinstance(t, FloatT): return 4 if t.k == 'float' else 8
        if isinstance(t, ArrT): return s.lalign(t.e)
        if isinstance(t, StructT): return 1 if t.packed else max([s.lalign(f) for f in t.fs] or [1])
        if isinstance(t, NamedT):
            b = s.m.types.get(t.n); return s.lalign(b) if b is not None else 1
        return 8
    def lsize(s, t):
        if isinstance(t, IntT):
            b = (t.bits + 7) // 8; a = 1
            while a < b: a *= 2
            return a
        if isinstance(t, PtrT): return 8
        if isinstance(t, FloatT): return 4 if t.k == 'float' else 8
        if isinstance(t, ArrT): return t.n * s.lsize(t.e)
        if isinstance(t, StructT):
            off = 0
            for f in t.fs:
                if not t.packed:
                    a = s.lalign(f); off = (off + a - 1) // a * a
                off += s.lsize(f)
            if not t.packed:
                a = s.lalign(t); off = (off + a - 1) // a * a
            return off
        if isinstance(t, NamedT):
            b = s.m.types.get(t.n); return s.lsize(b) if b is not None else 1
        return 8
    def struct_def(s, nm, t):
        if isinstance(t, StructT):
            def isword(f): return WORD_STORAGE and not nm.startswith('struct L_') and isinstance(f, ArrT) and isinstance(f.e, IntT) and f.e.bits == 8 and f.n >= 8 and f.n % 8 == 0
            words_ok = True; attr = ' __attribute__((packed))' if t.packed else ''
            if not t.packed and any(isword(f) for f in t.fs):
                # word storage raises the C alignment of the struct to 8; LLVM's alignment of [N x i8] is 1. Keep the LLVM layout:
                # if the struct has no implicit padding, declare it packed with LLVM's alignment; otherwise use plain bytes.
                a = s.lalign(t)
                off = 0
                for f in t.fs:
                    fa = s.lalign(f); off = (off + fa - 1) // fa * fa
                    if isword(f) and off % 8: words_ok = False
                    off += s.lsize(f)
                if words_ok and a < 8:
                    off = 0; nopad = True
                    for f in t.fs:
                        if off % s.lalign(f): nopad = False
                        off += s.lsize(f)
                    if off % a: nopad = False
                    if nopad: attr = ' __attribute__((packed%s))' % (', aligned(%d)' % a if a > 1 else '')
                    else: words_ok = False
            def fdecl(f, i):
                # raw storage ([N x i8], N multiple of 8) is declared as 64-bit words so that aligned pointer-sized
                # stores stay whole-element updates for CBMC's field sensitivity (layout unchanged)
                if words_ok and isword(f):
                    return 'char* f%d[%d];' % (i, f.n // 8)
                if s.in_union and isinstance(f, IntT) and f.bits == 64: return 'char* f%d;' % i
                if s.in_union and isinstance(f, StructT) and all(isinstance(x, IntT) and x.bits == 64 for x in f.fs) and f.fs:
                    return 'struct { %s } f%d;' % (' '.join('char* f%d;' % k for k in range(len(f.fs))), i)
                return '%s f%d;' % (s.ctype(f), i)
            fs = ' '.join(fdecl(f, i) for i, f in enumerate(t.fs))
            if not t.fs: fs = ''
            return '%s { %s }%s;' % (nm, fs, attr)
        # named alias of non-struct (rare)
        return '%s { %s v; };' % (nm, s.ctype(t))
    def body_of(s, t):
        if isinstance(t, NamedT): return s.m.types.get(t.n)
        return t
    def bits(s, t): return t.bits if isinstance(t, IntT) else None

def order_blocks(blocks):
    """Emit the basic blocks in a weak topological order (Bourdoncle): every loop's blocks are contiguous, header first, and the code
    after a loop comes AFTER the loop body. LLVM's own layout often puts `for.cond.cleanup` + everything that follows the loop lexically
    BEFORE `for.body`; cbmc's symex merges states only at forward gotos, so with that layout the code after the loop is executed
    symbolically once per loop-exit state (once per unwinding) instead of once - multiplicative with nesting. Block order is semantically
    irrelevant here: every block is labelled and ends in explicit gotos; the entry block stays first."""
    if os.environ.get('LL2C_ORDER', 'llvm') != 'wto' or len(blocks) < 3: return blocks
    names = [b[0] for b in blocks]; idx = {n: i for i, n in enumerate(names)}
    succ = []
    for (bn, ins) in blocks:
        t = ins[-1] if ins else ''
        out = []
        if re.match(r'^(br|switch|indirectbr|callbr)\b', t):
            for mm in re.finditer(r'label %("(?:[^"]*)"|[-a-zA-Z$._0-9]+)', t):
                k = idx.get(mm.group(1).strip('"'))
                if k is not None and k not in out: out.append(k)
        succ.append(out)
    n = len(blocks); INF = 1 << 60
    dfn = [0] * n; num = [0]; stack = []
    def visit(v, part):
        stack.append(v); num[0] += 1; dfn[v] = num[0]; head = num[0]; loop = False
        for w in succ[v]:
            m = visit(w, part) if dfn[w] == 0 else dfn[w]
            if m <= head: head = m; loop = True
        if head == dfn[v]:
            dfn[v] = INF
            e = stack.pop()
            if loop:
                while e != v:
                    dfn[e] = 0; e = stack.pop()
                comp = []
                for w in succ[v]:
                    if dfn[w] == 0: visit(w, comp)
                part.append(comp + [v])      # lists are built in reverse
            else:
                part.append(v)
        return head
    top = []
    import threading
    def go(): visit(0, top)
    old = sys.getrecursionlimit(); sys.setrecursionlimit(max(old, 4 * n + 1000))
    try:
        if n > 400:
            threading.stack_size(512 * 1024 * 1024); th = threading.Thread(target=go); th.start(); th.join(); threading.stack_size(0)
        else: go()
    finally: sys.setrecursionlimit(old)
    flat = []
    def flatten(x):
        for e in reversed(x):
            if isinstance(e, list): flatten(e)
            else: flat.append(e)
    flatten(top)
    seen = set(flat)
    if len(seen) != len(flat) or (flat and flat[0] != 0): return blocks          # defensive: never emit a broken order
    flat += [i for i in range(n) if i not in seen]                               # unreachable blocks last
    return [blocks[i] for i in flat]

def mask(bits):
    return None if bits in (8, 16, 32, 64, 128) else ('0x%xULL' % ((1 << bits) - 1))

class FnEmitter:
    def __init__(s, em, f, gl):
        s.em = em; s.f = f; s.gl = gl; s.out = []; s.decl = {}; s.ty = {}; s.defline = {}; s.used_funcs = set(); s.used_globs = set(); s.allocas = []
    def ct(s, t): return s.em.ctype(t)
    def loc(s, n): return 'v_' + cid(n) if not re.fullmatch(r'\d+', n) else 'v' + n
    def lab(s, n): return 'L_' + cid(n) if not re.fullmatch(r'\d+', n) else 'L' + n
    def define(s, n, t):
        s.ty[n] = t
        if not isinstance(t, VoidT): s.decl[s.loc(n)] = s.ct(t)
        return s.loc(n)
    # ---- constant / operand to C expr
    def val(s, t, v):
        k = v[0]
        if k == 'loc': return s.loc(v[1])
        if k == 'glob':
            return s.gl.addr(v[1], s)
        if k == 'int':
            if isinstance(t, (PtrT,)): return '((char*)%d)' % v[1]
            b = t.bits; x = v[1] & ((1 << b) - 1)
            if b > 64: return '((unsigned __int128)0x%xULL << 64 | 0x%xULL)' % (x >> 64, x & (2**64 - 1))
            return '((%s)0x%xULL)' % (s.ct(t), x)
        if k == 'null': return '((char*)0)'
        if k in ('undef', 'zero'):
            if isinstance(t, (IntT,)): return '((%s)0)' % s.ct(t)
            if isinstance(t, (PtrT,)): return '((char*)0)'
            if isinstance(t, FloatT): return '0.0'
            return '((%s){0})' % s.ct(t)
        if k == 'float':
            return s.gl.floatlit(t, v[1])
        if k == 'agg' or k == 'str':
            return '((%s)%s)' % (s.ct(t), s.gl.init(t, v, s))
        if k == 'cgep':
            return s.gep_expr(v[1], s.val(PtrT(v[1]), v[2]), v[3])
        if k == 'ccast':
            return s.cast_expr(v[1], v[2], s.val(v[2], v[3]), v[4])
        if k == 'cbin':
            return s.bin_expr(v[1], v[2], s.val(v[2], v[3]), s.val(v[2], v[4]))
        if k == 'cicmp':
            return s.icmp_expr(v[1], v[2], s.val(v[2], v[3]), s.val(v[2], v[4]))
        if k == 'csel':
            return '(%s ? %s : %s)' % (s.val(IntT(1), v[1]), s.val(v[2], v[3]), s.val(v[2], v[4]))
        raise Unsupported('value kind ' + k)
    def sx(s, t, e):  # sign-extend int expr to int64_t
        b = t.bits
        if b in (8, 16, 32, 64): return '((int64_t)(int%d_t)%s)' % (b, e)
        if b > 64: raise Unsupported('signed op >64')
        return '(((int64_t)((uint64_t)%s << %d)) >> %d)' % (e, 64 - b, 64 - b)
    def trunc_to(s, t, e):
        b = t.bits; m = mask(b)
        if m and b < 64: return '((%s)((%s) & %s))' % (s.ct(t), e, m)
        return '((%s)(%s))' % (s.ct(t), e)
    def wide(s, t): return 'unsigned __int128' if t.bits > 64 else ('uint64_t' if t.bits > 32 else 'uint32_t')
    def bin_expr(s, op, t, a, b):
        if isinstance(t, FloatT):
            o = {'fadd': '+', 'fsub': '-', 'fmul': '*', 'fdiv': '/'}.get(op)
            if not o: raise Unsupported('fp op ' + op)
            return '(%s %s %s)' % (a, o, b)
        if isinstance(t, VecT): raise Unsupported('vector op')
        W = s.wide(t)
        if op in ('add', 'sub', 'mul', 'and', 'or', 'xor'):
            o = {'add': '+', 'sub': '-', 'mul': '*', 'and': '&', 'or': '|', 'xor': '^'}[op]
            return s.trunc_to(t, '(%s)%s %s (%s)%s' % (W, a, o, W, b))
        if op == 'shl': return s.trunc_to(t, '(%s)%s << (%s & %d)' % (W, a, b, 127 if t.bits > 64 else (63 if t.bits > 32 else 31)))
        if op == 'lshr': return s.trunc_to(t, '(%s)%s >> (%s & %d)' % (W, a, b, 127 if t.bits > 64 else (63 if t.bits > 32 else 31)))
        if op == 'ashr': return s.trunc_to(t, '(uint64_t)(%s >> (%s & 63))' % (s.sx(t, a), b))
        if op == 'udiv': return s.trunc_to(t, '(%s)%s / (%s)%s' % (W, a, W, b))
        if op == 'urem': return s.trunc_to(t, '(%s)%s %% (%s)%s' % (W, a, W, b))
        if op == 'sdiv': return s.trunc_to(t, '(uint64_t)(%s / %s)' % (s.sx(t, a), s.sx(t, b)))
        if op == 'srem': return s.trunc_to(t, '(uint64_t)(%s %% %s)' % (s.sx(t, a), s.sx(t, b)))
        raise Unsupported('binop ' + op)
    def icmp_expr(s, p, t, a, b):
        if isinstance(t, (PtrT,)):
            o = {'eq': '==', 'ne': '!=', 'ult': '<', 'ule': '<=', 'ugt': '>', 'uge': '>='}.get(p)
            if not o: o = {'slt': '<', 'sle': '<=', 'sgt': '>', 'sge': '>='}[p]
            if p in ('eq', 'ne'): return '((uint8_t)(%s %s %s))' % (a, o, b)
            return '((uint8_t)((uintptr_t)%s %s (uintptr_t)%s))' % (a, o, b)
        if isinstance(t, VecT): raise Unsupported('vector icmp')
        if p[0] == 's':
            o = {'slt': '<', 'sle': '<=', 'sgt': '>', 'sge': '>='}[p]
            return '((uint8_t)(%s %s %s))' % (s.sx(t, a), o, s.sx(t, b))
        o = {'eq': '==', 'ne': '!=', 'ult': '<', 'ule': '<=', 'ugt': '>', 'uge': '>='}[p]
        return '((uint8_t)(%s %s %s))' % (a, o, b)
    def cast_expr(s, op, ft, e, tt):
        if op in ('bitcast', 'addrspacecast'):
            if isinstance(ft, (PtrT,)) and isinstance(tt, (PtrT,)): return e
            if isinstance(ft, IntT) and isinstance(tt, IntT): return e
            if isinstance(ft, VecT) or isinstance(tt, VecT): raise Unsupported('vector bitcast')
            return '({ %s s_=%s; %s d_; __builtin_memcpy(&d_,&s_,sizeof d_); d_; })' % (s.ct(ft), e, s.ct(tt))
        if op == 'ptrtoint': return s.trunc_to(tt, '(uintptr_t)%s' % e)
        if op == 'inttoptr': return '((char*)(uintptr_t)%s)' % e
        if op == 'trunc': return s.trunc_to(tt, e)
        if op == 'zext': return '((%s)%s)' % (s.ct(tt), e)
        if op == 'sext': return s.trunc_to(tt, '(uint64_t)%s' % s.sx(ft, e)) if tt.bits <= 64 else '((unsigned __int128)(__int128)%s)' % s.sx(ft, e)
        if op in ('fptoui', 'fptosi'):
            return s.trunc_to(tt, '(%s)%s' % ('uint64_t' if op == 'fptoui' else 'int64_t', e))
        if op == 'uitofp': return '((%s)%s)' % (s.ct(tt), e)
        if op == 'sitofp': return '((%s)%s)' % (s.ct(tt), s.sx(ft, e))
        if op in ('fpext', 'fptrunc'): return '((%s)%s)' % (s.ct(tt), e)
        raise Unsupported('cast ' + op)
    def gep_expr(s, bt, pe, idx):
        # idx: list of (type, value)
        parts = []
        t = bt
        first = True
        for (it, iv) in idx:
            if first:
                parts.append(s.idx_mul(it, iv, 'sizeof(%s)' % s.ct(t))); first = False; continue
            body = s.em.body_of(t)
            if isinstance(body, StructT):
                assert iv[0] == 'int', 'struct gep idx must be const'
                parts.append('offsetof(%s, f%d)' % (s.ct(t), iv[1])); t = body.fs[iv[1]]
            elif isinstance(body, ArrT):
                parts.append(s.idx_mul(it, iv, 'sizeof(%s)' % s.ct(body.e))); t = body.e
            elif isinstance(body, VecT): raise Unsupported('vector gep')
            else: raise Unsupported('gep into ' + t.key())
        parts = [p for p in parts if p != '0']
        if not parts: return pe
        return '(%s + (%s))' % (pe, ' + '.join(parts))
    def idx_mul(s, it, iv, size):
        if iv[0] == 'int':
            if iv[1] == 0: return '0'
            return '(int64_t)%d*(int64_t)%s' % (iv[1], size)
        return '%s*(int64_t)%s' % (s.sx(it, s.val(it, iv)), size)
    # ---- body
    def emit(s):
        f = s.f
        for (pt, pn, info) in f.params:
            if pn is not None: s.ty[pn] = pt
        # split blocks
        blocks = []; cur = None
        lines = f.body; i = 0
        merged = []
        while i < len(lines):
            ln = lines[i]; i += 1
            if ln.lstrip().startswith('switch') and ln.rstrip().endswith('['):
                while not lines[i].strip().startswith(']'):
                    ln += ' ' + lines[i].strip(); i += 1
                ln += ' ]'; i += 1
            merged.append(ln)
        first_label = None
        for ln in merged:
            if not ln.strip() or ln.lstrip().startswith(';'): continue
            mm = re.match(r'^("(?:[^"]*)"|[-a-zA-Z$._0-9]+):', ln)
            if mm and not ln.startswith(' '):
                nm = mm.group(1).strip('"'); cur = (nm, []); blocks.append(cur); continue
            if cur is None:
                cur = (None, []); blocks.append(cur)
            cur[1].append(strip_meta(ln.strip()))
        # implicit entry label: number = count of params (unnamed) ... find by preds: use first unnamed numbering
        if blocks[0][0] is None:
            # compute implicit label: next unnamed value id
            n = sum(1 for p in f.params if p[1] is not None and re.fullmatch(r'\d+', p[1]))
            blocks[0] = (str(n), blocks[0][1])
        # allocation type hints: first bitcast of an i8* value to a named struct pointer
        s.hints = {}
        for (bn, ins) in blocks:
            for ln in ins:
                mm = re.match(r'^%\S+ = bitcast i8\* %("(?:[^"]*)"|[-a-zA-Z$._0-9]+) to (%("(?:[^"]*)"|[-a-zA-Z$._0-9]+))\*$', ln)
                if mm and mm.group(1).strip('"') not in s.hints:
                    s.hints[mm.group(1).strip('"')] = NamedT(mm.group(2)[1:].strip('"'))
        # small aggregates copied through an integer (SROA / ABI coercion: `%v = load i64, i64* %q ; store i64 %v, i64* %p`): find the
        # struct type both sides really have, so that the copy can be emitted as a typed struct assignment (keeps fields constant)
        s.bitcasts = {}; s.alloca_ty = {}; s.int_alloca_struct = {}
        NM = r'("(?:[^"]*)"|[-a-zA-Z$._0-9]+)'
        for (bn, ins) in blocks:
            for ln in ins:
                mm = re.match(r'^%' + NM + r' = bitcast (.+?)\* %' + NM + r' to (.+?)\*$', ln)
                if mm:
                    try: s.bitcasts[mm.group(1).strip('"')] = (parse_type(Sc(mm.group(2))), mm.group(3).strip('"'), parse_type(Sc(mm.group(4))))
                    except Exception: pass
                mm = re.match(r'^%' + NM + r' = alloca ([^,]+)', ln)
                if mm:
                    try: s.alloca_ty[mm.group(1).strip('"')] = parse_type(Sc(mm.group(2)))
                    except Exception: pass
        for nm_, (st_, src_, dt_) in s.bitcasts.items():
            at_ = s.alloca_ty.get(src_)
            if isinstance(at_, IntT) and isinstance(dt_, NamedT) and s.em.m.types.get(dt_.n) is not None:
                try:
                    if s.em.lsize(dt_) * 8 == at_.bits and src_ not in s.int_alloca_struct: s.int_alloca_struct[src_] = dt_
                except Exception: pass
        s.last_load = None
        # collect phis
        s.phis = {}  # block -> list of (name, type, [(val, pred)])
        for (bn, ins) in blocks:
            for ln in ins:
                mm = re.match(r'^%("(?:[^"]*)"|[-a-zA-Z$._0-9]+) = phi ', ln)
                if not mm: break
                sc = Sc(ln); sc.i = 1; nm = sc.name(); sc.exp('='); sc.exp('phi'); t = parse_type(sc); inc = []
                while True:
                    sc.exp('['); v = parse_value(sc, t); sc.exp(','); sc.exp('%'); p = sc.name(); sc.exp(']'); inc.append((v, p))
                    if not sc.acc(','): break
                s.define(nm, t); s.phis.setdefault(bn, []).append((nm, t, inc))
        for (bn, ins) in order_blocks(blocks):
            s.cur = bn
            s.out.append('%s: ;' % s.lab(bn))
            for ln in ins:
                if re.match(r'^%("(?:[^"]*)"|[-a-zA-Z$._0-9]+) = phi ', ln): continue
                s.instr(ln)
        return s
    def lead_types(s, name):
        """named struct types found at offset 0 of the object a local pointer points to (through bitcasts / integer allocas)"""
        out = []
        t = None
        if name in s.int_alloca_struct: t = s.int_alloca_struct[name]
        elif name in s.bitcasts:
            st, src, dt = s.bitcasts[name]
            if isinstance(st, NamedT): t = st
            elif src in s.int_alloca_struct: t = s.int_alloca_struct[src]
        elif isinstance(s.alloca_ty.get(name), NamedT): t = s.alloca_ty[name]
        depth = 0
        while isinstance(t, NamedT) and depth < 8:
            out.append(t); body = s.em.m.types.get(t.n); depth += 1
            if isinstance(body, StructT) and body.fs: t = body.fs[0]
            else: break
        return out
    def edge(s, tgt):
        ph = s.phis.get(tgt, [])
        code = []
        if ph:
            for k, (nm, t, inc) in enumerate(ph):
                v = [v for (v, p) in inc if p == s.cur]
                if not v: raise Unsupported('phi pred missing %s<-%s' % (tgt, s.cur))
                tmp = 'phi_t%d_%s' % (k, s.loc(nm)); s.decl[tmp] = s.ct(t)
                code.append('%s = %s;' % (tmp, s.val(t, v[0])))
            for k, (nm, t, inc) in enumerate(ph):
                code.append('%s = phi_t%d_%s;' % (s.loc(nm), k, s.loc(nm)))
        code.append('goto %s;' % s.lab(tgt))
        return ' '.join(code)
    def instr(s, ln):
        sc = Sc(ln); res = None
        if sc.peek() == '%':
            sc.i += 1; res = sc.name(); sc.exp('=')
            s.defline[res] = sc.rest().strip()
        op = sc.word()
        o = s.out
        def setres(t, e):
            o.append('%s = %s;' % (s.define(res, t), e))
        if op in ('add', 'sub', 'mul', 'udiv', 'sdiv', 'urem', 'srem', 'shl', 'lshr', 'ashr', 'and', 'or', 'xor', 'fadd', 'fsub', 'fmul', 'fdiv'):
            while sc.acc('nuw') or sc.acc('nsw') or sc.acc('exact') or sc.acc('fast') or sc.acc('nnan') or sc.acc('ninf') or sc.acc('nsz') or sc.acc('arcp') or sc.acc('contract') or sc.acc('reassoc') or sc.acc('afn'): pass
            t = parse_type(sc); a = parse_value(sc, t); sc.exp(','); b = parse_value(sc, t)
            if op == 'sub' and isinstance(t, IntT) and t.bits == 64 and a[0] == 'loc' and b[0] == 'loc':
                # pointer difference (ptrtoint/ptrtoint/sub): emit a C pointer subtraction, which symex folds for same-object pointers
                da = s.defline.get(a[1], ''); db = s.defline.get(b[1], '')
                if da.startswith('ptrtoint') and db.startswith('ptrtoint'):
                    def src(dl):
                        q = Sc(dl); q.word(); pt = parse_type(q); pv = parse_value(q, pt); return s.val(pt, pv)
                    try:
                        A_ = src(da); B_ = src(db)
                        # null - null (empty std::vector) is 0 in C++; keep it away from C's pointer-subtraction rules
                        return setres(t, '((char*)%s == (char*)%s ? (uint64_t)0 : (uint64_t)((char*)%s - (char*)%s))' % (A_, B_, A_, B_))
                    except Exception: pass
            return setres(t, s.bin_expr(op, t, s.val(t, a), s.val(t, b)))
        if op == 'icmp':
            p = sc.word(); t = parse_type(sc); a = parse_value(sc, t); sc.exp(','); b = parse_value(sc, t)
            return setres(IntT(1), s.icmp_expr(p, t, s.val(t, a), s.val(t, b)))
        if op == 'fcmp':
            while sc.acc('fast') or sc.acc('nnan') or sc.acc('ninf') or sc.acc('nsz'): pass
            p = sc.word(); t = parse_type(sc); a = parse_value(sc, t); sc.exp(','); b = parse_value(sc, t)
            A = s.val(t, a); B = s.val(t, b)
            base = {'oeq': '==', 'ogt': '>', 'oge': '>=', 'olt': '<', 'ole': '<=', 'one': '!=', 'ueq': '==', 'ugt': '>', 'uge': '>=', 'ult': '<', 'ule': '<=', 'une': '!='}.get(p)
            if p == 'ord': e = '(%s==%s && %s==%s)' % (A, A, B, B)
            elif p == 'uno': e = '(%s!=%s || %s!=%s)' % (A, A, B, B)
            elif p[0] == 'o': e = '(%s %s %s)' % (A, base, B)
            else: e = '(!(%s==%s && %s==%s) || %s %s %s)' % (A, A, B, B, A, base, B)
            return setres(IntT(1), '((uint8_t)%s)' % e)
        if op == 'select':
            t0 = parse_type(sc); c = parse_value(sc, t0); sc.exp(','); t = parse_type(sc); a = parse_value(sc, t); sc.exp(','); t2 = parse_type(sc); b = parse_value(sc, t2)
            return setres(t, '(%s ? %s : %s)' % (s.val(t0, c), s.val(t, a), s.val(t, b)))
        if op in CASTS or op in ('fptoui', 'fptosi', 'uitofp', 'sitofp', 'fpext', 'fptrunc'):
            ft = parse_type(sc); v = parse_value(sc, ft); sc.exp('to'); tt = parse_type(sc)
            return setres(tt, s.cast_expr(op, ft, s.val(ft, v), tt))
        if op == 'freeze':
            t = parse_type(sc); v = parse_value(sc, t); return setres(t, s.val(t, v))
        if op == 'getelementptr':
            sc.acc('inbounds'); bt = parse_type(sc); sc.exp(','); pt = parse_type(sc); pv = parse_value(sc, pt); idx = []
            while sc.acc(','):
                it = parse_type(sc); idx.append((it, parse_value(sc, it)))
            return setres(PtrT(bt), s.gep_expr(bt, s.val(pt, pv), idx))
        if op == 'load':
            sc.acc('atomic'); sc.acc('volatile'); t = parse_type(sc); sc.exp(','); pt = parse_type(sc); p = parse_value(sc, pt)
            e = '(*(%s*)%s)' % (s.ct(t), s.val(pt, p))
            if isinstance(t, IntT) and mask(t.bits) and t.bits < 64: e = s.trunc_to(t, e)
            if isinstance(t, IntT) and t.bits in (16, 32, 64, 128) and p[0] == 'loc': s.last_load = (res, t.bits, p[1], len(o))
            return setres(t, e)
        if op == 'store':
            sc.acc('atomic'); sc.acc('volatile'); t = parse_type(sc); v = parse_value(sc, t); sc.exp(','); pt = parse_type(sc); p = parse_value(sc, pt)
            ll = s.last_load
            if ll and isinstance(t, IntT) and v[0] == 'loc' and v[1] == ll[0] and t.bits == ll[1] and p[0] == 'loc' and len(o) == ll[3] + 1:
                ta = s.lead_types(ll[2]); tb = s.lead_types(p[1])
                for T_ in ta:
                    if any(T_.n == U_.n for U_ in tb):
                        try: ok_ = s.em.lsize(T_) * 8 == t.bits
                        except Exception: ok_ = False
                        if ok_:
                            o.append('if (sizeof(%s) == %d) *(%s*)%s = *(%s*)%s; else *(%s*)%s = %s; /* aggregate copied through an integer */' % (s.ct(T_), t.bits // 8, s.ct(T_), s.val(pt, p), s.ct(T_), s.loc(ll[2]), s.ct(t), s.val(pt, p), s.val(t, v))); return
            o.append('*(%s*)%s = %s;' % (s.ct(t), s.val(pt, p), s.val(t, v))); return
        if op == 'alloca':
            sc.acc('inalloca'); t = parse_type(sc); cnt = None
            if sc.acc(','):
                if not sc.acc('align'):
                    ct_ = parse_type(sc); cnt = parse_value(sc, ct_)
                    if cnt[0] != 'int': raise Unsupported('dynamic alloca')
            n = cnt[1] if cnt else 1
            an = 'al_' + s.loc(res)
            st_ = s.int_alloca_struct.get(res)
            if st_ is not None and n == 1: s.allocas.append('union { %s v; %s w; } %s[1];' % (s.ct(st_), s.ct(t), an))   # typed view of an SROA'd integer temporary
            else: s.allocas.append('%s %s[%d];' % (s.ct(t), an, n))
            return setres(PtrT(t), '(char*)%s' % an)
        if op == 'br':
            if sc.acc('label'):
                sc.exp('%'); o.append(s.edge(sc.name())); return
            t = parse_type(sc); c = parse_value(sc, t); sc.exp(','); sc.exp('label'); sc.exp('%'); a = sc.name(); sc.exp(','); sc.exp('label'); sc.exp('%'); b = sc.name()
            o.append('if (%s) { %s } else { %s }' % (s.val(t, c), s.edge(a), s.edge(b))); return
        if op == 'switch':
            t = parse_type(sc); v = parse_value(sc, t); sc.exp(','); sc.exp('label'); sc.exp('%'); d = sc.name(); sc.exp('[')
            cases = []
            while not sc.acc(']'):
                ct_ = parse_type(sc); cv = parse_value(sc, ct_); sc.exp(','); sc.exp('label'); sc.exp('%'); cases.append((cv, sc.name()))
            code = 'switch (%s) {' % s.val(t, v)
            for cv, tg in cases: code += ' case %s: { %s }' % (s.val(t, cv), s.edge(tg))
            code += ' default: { %s } }' % s.edge(d)
            o.append(code); return
        if op == 'ret':
            t = parse_type(sc)
            if isinstance(t, VoidT): o.append('return;'); return
            v = parse_value(sc, t); o.append('return %s;' % s.val(t, v)); return
        if op == 'unreachable':
            o.append('__ll2c_unreachable();'); return
        if op in ('call', 'tail', 'musttail', 'notail'):
            if op != 'call': sc.exp('call')
            return s.call(sc, res)
        if op == 'extractvalue':
            t = parse_type(sc); v = parse_value(sc, t); e = s.val(t, v); ct_ = t
            while sc.acc(','):
                k = int(sc.word()); body = s.em.body_of(ct_)
                if isinstance(body, StructT): e += '.f%d' % k; ct_ = body.fs[k]
                else: e += '.a[%d]' % k; ct_ = body.e
            return setres(ct_, e)
        if op == 'insertvalue':
            t = parse_type(sc); v = parse_value(sc, t); sc.exp(','); et = parse_type(sc); ev = parse_value(sc, et)
            path = ''; ct_ = t
            while sc.acc(','):
                k = int(sc.word()); body = s.em.body_of(ct_)
                if isinstance(body, StructT): path += '.f%d' % k; ct_ = body.fs[k]
                else: path += '.a[%d]' % k; ct_ = body.e
            r = s.define(res, t)
            o.append('%s = %s; %s%s = %s;' % (r, s.val(t, v), r, path, s.val(et, ev))); return
        if op == 'atomicrmw':
            sc.acc('volatile'); bop = sc.word(); pt = parse_type(sc); p = parse_value(sc, pt); sc.exp(','); t = parse_type(sc); v = parse_value(sc, t)
            P = '(*(%s*)%s)' % (s.ct(t), s.val(pt, p)); r = s.define(res, t); V = s.val(t, v)
            newv = {'xchg': V, 'add': s.bin_expr('add', t, r, V), 'sub': s.bin_expr('sub', t, r, V), 'and': s.bin_expr('and', t, r, V), 'or': s.bin_expr('or', t, r, V), 'xor': s.bin_expr('xor', t, r, V)}.get(bop)
            if newv is None: raise Unsupported('atomicrmw ' + bop)
            o.append('%s = %s; %s = %s;' % (r, P, P, newv)); return
        if op == 'cmpxchg':
            sc.acc('weak'); sc.acc('volatile'); pt = parse_type(sc); p = parse_value(sc, pt); sc.exp(','); t = parse_type(sc); c = parse_value(sc, t); sc.exp(','); t2 = parse_type(sc); n = parse_value(sc, t2)
            rt = StructT([t, IntT(1)], False); r = s.define(res, rt)
            P = '(*(%s*)%s)' % (s.ct(t), s.val(pt, p))
            o.append('%s.f0 = %s; %s.f1 = (%s.f0 == %s); if (%s.f1) %s = %s;' % (r, P, r, r, s.val(t, c), r, P, s.val(t, n))); return
        if op == 'fence': return
        if op == 'fneg':
            t = parse_type(sc); v = parse_value(sc, t); return setres(t, '(-%s)' % s.val(t, v))
        if op in ('invoke', 'landingpad', 'resume'): raise Unsupported(op + ' (run opt -lowerinvoke)')
        raise Unsupported('instr ' + op + ' :: ' + ln[:80])
    def call(s, sc, res):
        while True:
            save = sc.i; w = sc.word()
            if w in ('fastcc', 'ccc', 'coldcc', 'tailcc', 'fast', 'nnan', 'ninf', 'nsz', 'arcp', 'contract', 'reassoc', 'afn'): continue
            sc.i = save; break
        skip_param_attrs(sc)
        rt = parse_type(sc)
        fnty = None
        if isinstance(rt, FuncT): fnty = rt; rt = fnty.r
        elif isinstance(rt, PtrT) and isinstance(rt.to, FuncT) and sc.peek() not in '%@': pass
        sc.ws()
        callee = parse_value(sc, PtrT(VoidT()))
        sc.exp('(')
        args = []
        if not sc.acc(')'):
            while True:
                at = parse_type(sc)
                if isinstance(at, OtherT) and at.k == 'metadata':
                    # skip metadata arg
                    depth = 0
                    while True:
                        ch = sc.t[sc.i]
                        if ch in '([{': depth += 1
                        if ch in ')]}':
                            if depth == 0: break
                            depth -= 1
                        if ch == ',' and depth == 0: break
                        sc.i += 1
                    args.append(None)
                else:
                    info = skip_param_attrs(sc); v = parse_value(sc, at); args.append((at, v, info))
                if sc.acc(')'): break
                sc.exp(',')
        o = s.out
        # intrinsics
        if callee[0] == 'glob' and callee[1].startswith('llvm.'):
            return s.intrinsic(callee[1], rt, args, res)
        argv = []
        pre = []
        for k, a in enumerate(args):
            at, v, info = a
            e = s.val(at, v)
            if 'byval' in info:
                bt = info['byval']; tmp = 'bv_%d_%d' % (len(o), k)
                s.allocas.append('%s %s;' % (s.ct(bt), tmp))
                pre.append('%s = *(%s*)%s;' % (tmp, s.ct(bt), e)); e = '(char*)&%s' % tmp
            argv.append(e)
        if callee[0] == 'glob' and callee[1] in ('vp_assert', 'vp_assume', 'vp_cover'):
            o.extend(pre)
            if callee[1] == 'vp_assume':
                o.append('VP_ASSUME(%s);' % argv[0]); return
            msg = s.const_string(args[1][1]) or 'assertion'
            msg = re.sub(r'[^ -~]', '?', msg).replace('\\', '/').replace('"', "'")
            o.append('%s(%s, "%s");' % ('VP_ASSERT' if callee[1] == 'vp_assert' else 'VP_COVER', argv[0], msg)); return
        if callee[0] == 'glob':
            n = callee[1]
            g = s.gl.m.globals.get(n)
            if g and 'alias' in g and g['alias'][0] == 'glob': n = g['alias'][1]
            s.used_funcs.add(n)
            fe = s.gl.fname(n)
            tf = s.gl.m.funcs.get(n)
            if tf is not None and not tf.vararg and len(tf.params) != len(argv):
                raise Unsupported('arity mismatch calling ' + n)
        else:
            fpv = s.val(PtrT(VoidT()), callee)
            shp = shape_of(rt, [a[0] for a in args])
            slot = None
            if callee[0] == 'loc':
                dl = s.defline.get(callee[1], '')
                mm = re.match(r'load .*, .*\* %("(?:[^"]*)"|[-a-zA-Z$._0-9]+)(?:, align \d+)?$', dl)
                if mm:
                    src = mm.group(1).strip('"'); d2 = s.defline.get(src, '')
                    if src.startswith('vtable'): slot = 0
                    mm2 = re.match(r'getelementptr inbounds .*, .*\* %("?vtable[^,"]*"?), i64 (-?\d+)$', d2)
                    if mm2: slot = int(mm2.group(2))
            if slot is not None:
                cands = sorted(c for c in (set(s.gl.cand_vt.get(slot + 2, ())) | s.gl.extra_cand) if s.gl.shape.get(c) == shp)
            else:
                cands = sorted(c for c in (s.gl.cand_plain | s.gl.extra_cand) if s.gl.shape.get(c) == shp)
            for c in s.gl.extra_cand:
                if c not in s.gl.m.funcs and (c + ':' + shp) in s.gl.extra_shapes:
                    nf = Func(); nf.name = c; nf.ret = rt; nf.isdef = False; nf.params = [(a_[0], None, {}) for a_ in args]
                    s.gl.m.funcs[c] = nf; s.gl.shape[c] = shp; cands = sorted(set(cands) | {c})
            s.gl.indirect_sites.append((s.f.name, shp, slot, len(cands)))
            for c in cands: s.used_funcs.add(c)
            o.extend(pre); pre = []
            rv = None
            if res is not None and not isinstance(rt, VoidT): rv = s.define(res, rt)
            chain = ''
            for c in cands:
                chain += 'if (%s == (char*)&%s) { %s%s(%s); } else ' % (fpv, s.gl.fname(c), (rv + ' = ') if rv else '', s.gl.fname(c), ', '.join(argv))
            chain += '{ __ll2c_unmodelled("indirect call: no candidate matched (%s)"); }' % shp.replace('"', '')
            o.append(chain)
            return
        e = '%s(%s)' % (fe, ', '.join(argv))
        if callee[0] == 'glob' and callee[1] in ('_Znwm', '_Znam', 'malloc') and res in getattr(s, 'hints', {}) and s.em.m.types.get(s.hints[res].n) is not None:
            e = '__ll2c_new_typed(%s, %s)' % (s.ct(s.hints[res]), argv[0])
        o.extend(pre)
        if res is not None and not isinstance(rt, VoidT): o.append('%s = %s;' % (s.define(res, rt), e))
        else: o.append(e + ';')
    def const_string(s, v):
        while v[0] in ('cgep', 'ccast'): v = v[2] if v[0] == 'cgep' else v[3]
        if v[0] != 'glob': return None
        g = s.gl.m.globals.get(v[1])
        if not g or g.get('init') is None or g['init'][0] != 'str': return None
        return g['init'][1].split(b'\0')[0].decode('latin1')
    def intrinsic(s, n, rt, args, res):
        o = s.out
        A = lambda k: s.val(args[k][0], args[k][1])
        base = n.split('.')[1]
        if base in ('lifetime', 'dbg', 'invariant', 'assume', 'experimental', 'prefetch', 'donothing', 'var'):
            if res is not None and not isinstance(rt, VoidT): o.append('%s = 0;' % s.define(res, rt))
            return
        if base in ('memcpy', 'memmove'):
            ln_ = args[2][1]
            if ln_[0] == 'int' and 0 < ln_[1] <= 512:
                n_ = ln_[1]
                # typed struct assignment when the static origin type of an operand is known (keeps CBMC field-sensitive)
                T_ = None
                for k_ in (0, 1):
                    v_ = args[k_][1]
                    if v_[0] == 'loc':
                        mm_ = re.match(r'bitcast (%(?:"[^"]*"|[-a-zA-Z$._0-9]+))\* %', s.defline.get(v_[1], ''))
                        if mm_:
                            nm_ = mm_.group(1)[1:].strip('"')
                            if s.em.m.types.get(nm_) is not None: T_ = NamedT(nm_); break
                if T_ is None:
                    # no direct bitcast from a struct pointer: look for a struct type of exactly n bytes at offset 0 of either operand
                    for k_ in (0, 1):
                        v_ = args[k_][1]
                        if v_[0] == 'loc':
                            for U_ in s.lead_types(v_[1]):
                                try:
                                    if s.em.lsize(U_) == n_: T_ = U_; break
                                except Exception: pass
                        if T_ is not None: break
                words = ' '.join('((char**)d_)[%d] = ((char**)s_)[%d];' % (i_, i_) for i_ in range(n_ // 8))
                tail = ' '.join('d_[%d] = s_[%d];' % (i_, i_) for i_ in range(n_ - n_ % 8, n_))
                generic = '{ %s %s }' % (words, tail)
                if T_ is not None:
                    o.append('{ char *d_ = %s, *s_ = %s; if (sizeof(%s) == %d) *(%s*)d_ = *(%s*)s_; else %s }' % (A(0), A(1), s.ct(T_), n_, s.ct(T_), s.ct(T_), generic))
                else:
                    o.append('{ char *d_ = %s, *s_ = %s; %s }' % (A(0), A(1), generic))
                return
            o.append('%s(%s, %s, %s);' % (base, A(0), A(1), A(2))); return
        if base == 'memset':
            ln_ = args[2][1]; cv_ = args[1][1]
            if ln_[0] == 'int' and 0 < ln_[1] <= 512 and cv_[0] == 'int' and cv_[1] == 0:
                n_ = ln_[1]
                words = ' '.join('((char**)d_)[%d] = 0;' % i_ for i_ in range(n_ // 8))
                tail = ' '.join('d_[%d] = 0;' % i_ for i_ in range(n_ - n_ % 8, n_))
                o.append('{ char *d_ = %s; %s %s }' % (A(0), words, tail)); return
            o.append('memset(%s, %s, %s);' % (A(0), A(1), A(2))); return
        if base == 'expect': o.append('%s = %s;' % (s.define(res, rt), A(0))); return
        if base in ('umax', 'umin'):
            o.append('%s = (%s %s %s) ? %s : %s;' % (s.define(res, rt), A(0), '>' if base == 'umax' else '<', A(1), A(0), A(1))); return
        if base in ('smax', 'smin'):
            t = args[0][0]
            o.append('%s = (%s %s %s) ? %s : %s;' % (s.define(res, rt), s.sx(t, A(0)), '>' if base == 'smax' else '<', s.sx(t, A(1)), A(0), A(1))); return
        if base == 'abs':
            t = args[0][0]; o.append('%s = %s;' % (s.define(res, rt), s.trunc_to(t, '(uint64_t)(%s < 0 ? -%s : %s)' % (s.sx(t, A(0)), s.sx(t, A(0)), s.sx(t, A(0)))))); return
        if base == 'bswap':
            t = args[0][0]; o.append('%s = __builtin_bswap%d(%s);' % (s.define(res, rt), t.bits, A(0))); return
        if base in ('ctlz', 'cttz', 'ctpop'):
            t = args[0][0]
            o.append('%s = __ll2c_%s%d(%s);' % (s.define(res, rt), base, t.bits, A(0))); return
        if base in ('fshl', 'fshr'):
            t = args[0][0]; b = t.bits
            if base == 'fshl': e = '(%s == 0 ? %s : ((%s << (%s %% %d)) | (%s >> (%d - (%s %% %d)))))' % ('(%s %% %d)' % (A(2), b), A(0), A(0), A(2), b, A(1), b, A(2), b)
            else: e = '(%s == 0 ? %s : ((%s << (%d - (%s %% %d))) | (%s >> (%s %% %d))))' % ('(%s %% %d)' % (A(2), b), A(1), A(0), b, A(2), b, A(1), A(2), b)
            o.append('%s = %s;' % (s.define(res, rt), s.trunc_to(t, e))); return
        if base in ('uadd', 'usub', 'umul', 'sadd', 'ssub', 'smul') and 'with.overflow' in n:
            t = args[0][0]; r = s.define(res, rt); b = t.bits
            if b > 64: raise Unsupported('overflow intrinsic >64')
            opc = {'add': '+', 'sub': '-', 'mul': '*'}[base[1:]]
            if base[0] == 'u':
                o.append('{ unsigned __int128 w_ = (unsigned __int128)%s %s (unsigned __int128)%s; %s.f0 = %s; %s.f1 = (w_ >> %d) != 0; }' % (A(0), opc, A(1), r, s.trunc_to(t, 'w_'), r, b)) if base != 'usub' else o.append('%s.f0 = %s; %s.f1 = %s < %s;' % (r, s.bin_expr('sub', t, A(0), A(1)), r, A(0), A(1)))
            else:
                o.append('{ __int128 w_ = (__int128)%s %s (__int128)%s; %s.f0 = %s; %s.f1 = (w_ != (__int128)%s); }' % (s.sx(t, A(0)), opc, s.sx(t, A(1)), r, s.trunc_to(t, '(uint64_t)w_'), r, s.sx(t, '%s.f0' % r)))
            return
        if base == 'trap' or base == 'debugtrap': o.append('__ll2c_trap();'); return
        if base == 'objectsize': o.append('%s = (%s)-1;' % (s.define(res, rt), s.ct(rt))); return
        if base in ('stacksave',): o.append('%s = 0;' % s.define(res, rt)); return
        if base in ('stackrestore',): return
        if base == 'is' and 'constant' in n: o.append('%s = 0;' % s.define(res, rt)); return
        if base in ('va_start', 'va_end', 'va_copy'): raise Unsupported('varargs body')
        raise Unsupported('intrinsic ' + n)

def shape_of(rt, argtys):
    def k(t):
        if isinstance(t, (PtrT, FuncT)): return 'p'
        if isinstance(t, NamedT): return '%' + re.sub(r'\.\d+$', '', t.n)
        return t.key()
    return k(rt) + '(' + ','.join(k(a) for a in argtys) + ')'

class Globals:
    def __init__(s, m, em, model_syms): s.m = m; s.em = em; s.model = model_syms; s.used = set(); s.usedf = set(); s.taken_plain = set(); s.vt_slots = {}; s.cand_plain = set(); s.cand_vt = {}; s.in_vtable = None; s.literals16 = []
    def fname(s, n): return 'F_' + cid(n) if (n in s.m.funcs and s.m.funcs[n].isdef and n not in s.model) else s.ext_name(n)
    def ext_name(s, n): return cid(n)
    def gname(s, n): return 'G_' + cid(n)
    def addr(s, n, fe=None):
        g = s.m.globals.get(n)
        if g is not None and 'alias' in g:
            return FnEmitter(s.em, None, s).val(PtrT(VoidT()), g['alias']) if fe is None else fe.val(PtrT(VoidT()), g['alias'])
        if n in s.m.funcs:
            s.usedf.add(n)
            if s.in_vtable is None: s.taken_plain.add(n)
            if fe is not None: fe.used_funcs.add(n)
            return '((char*)&%s)' % s.fname(n)
        s.used.add(n)
        if fe is not None: fe.used_globs.add(n)
        return '((char*)&%s)' % s.gname(n)
    def floatlit(s, t, txt):
        if txt.startswith('0x'):
            import struct
            bits = int(txt[2:], 16) if txt[2] not in 'KLMH' else None
            if bits is None: raise Unsupported('long double literal')
            d = struct.unpack('>d', bits.to_bytes(8, 'big'))[0]
            if d != d: return '(0.0/0.0)'
            if d in (float('inf'), float('-inf')): return '(%s1.0/0.0)' % ('-' if d < 0 else '')
            return repr(d)
        return txt
    def init(s, t, v, fe):
        """C initializer (brace) text for constant v of type t"""
        k = v[0]
        body = s.em.body_of(t)
        if k in ('zero', 'undef'):
            return '{0}' if isinstance(body, (StructT, ArrT)) else '0'
        if k == 'str':
            if not str(getattr(s, 'cur_global', '')).startswith(('_ZTS', '_ZTI')): s.literals16.append(list(v[1]))   # 8-bit literal, checked in widened form (RTTI names never become strings)
            return '{ {' + ','.join(str(b) for b in v[1]) + '} }'
        if k == 'agg':
            if isinstance(body, ArrT) and isinstance(body.e, IntT) and body.e.bits == 16 and all(ev[0] == 'int' for (_et, ev) in v[1]):
                s.literals16.append([ev[1] & 0xffff for (_et, ev) in v[1]])   # UTF-16 literal data (for the offline injectivity check of string ids)
            if isinstance(body, ArrT):
                if s.in_vtable is not None:
                    for idx, (et, ev) in enumerate(v[1]):
                        tgt = ev
                        while tgt[0] == 'ccast': tgt = tgt[3]
                        if tgt[0] == 'glob':
                            n_ = tgt[1]; g_ = s.m.globals.get(n_)
                            if g_ and 'alias' in g_ and g_['alias'][0] == 'glob': n_ = g_['alias'][1]   # complete-object dtors are aliases
                            if n_ in s.m.funcs: s.vt_slots.setdefault(idx, set()).add(n_)
                return '{ {' + ','.join(s.init(et, ev, fe) for (et, ev) in v[1]) + '} }'
            if not v[1]: return '{}'
            return '{' + ','.join(s.init(et, ev, fe) for (et, ev) in v[1]) + '}'
        return fe.val(t, v)

HELPERS = r'''
#include <stdint.h>
#include <stddef.h>
#include <string.h>
#include <stdlib.h>
#ifdef __CPROVER__
#define __ll2c_unreachable() do { __CPROVER_assert(0, "ll2c: llvm unreachable executed"); __CPROVER_assume(0); } while (0)
#define __ll2c_trap() do { __CPROVER_assert(0, "ll2c: llvm.trap executed"); __CPROVER_assume(0); } while (0)
#else
#include <stdlib.h>
#include <stdio.h>
#define __ll2c_unreachable() do { fprintf(stderr, "ll2c: unreachable\n"); abort(); } while (0)
#define __ll2c_trap() abort()
#endif
#ifdef __CPROVER__
#define VP_ASSERT(c, m) __CPROVER_assert(c, "PROP: " m)
#define VP_COVER(c, m) __CPROVER_cover(c)
#define VP_ASSUME(c) __CPROVER_assume(c)
#define VP_MODEL_ASSERT(c, m) __CPROVER_assert(c, "MODEL: " m)
#else
void vp_native_prop_fail(const char *m); void vp_native_assume_fail(void); void vp_native_model_fail(const char *m);
#define VP_ASSERT(c, m) do { if (!(c)) vp_native_prop_fail(m); } while (0)
#define VP_COVER(c, m) do { } while (0)
#define VP_ASSUME(c) do { if (!(c)) vp_native_assume_fail(); } while (0)
#define VP_MODEL_ASSERT(c, m) do { if (!(c)) vp_native_model_fail(m); } while (0)
#endif
#ifdef __CPROVER__
#define __ll2c_new_typed(T, n) ((char*)(((n) <= sizeof(T)) ? malloc(sizeof(T)) : malloc(n)))
#else
/* native replay only: cbmc treats fresh heap memory as nondeterministic; natively every allocation is filled with its own byte
   pattern, so that a counterexample that depends on an uninitialised read reproduces (two objects never share their garbage) */
#ifndef VP_NATIVE_ALLOC_DEFINED
#define VP_NATIVE_ALLOC_DEFINED
#include <string.h>
static unsigned vp_native_alloc_ctr;
static char *vp_native_alloc(unsigned long n) { char *p = malloc(n ? n : 1); if (p) memset(p, 0xA1 + 7 * (vp_native_alloc_ctr++ % 13), n); return p; }
#endif
#define __ll2c_new_typed(T, n) (vp_native_alloc(((n) <= sizeof(T)) ? sizeof(T) : (n)))
#endif
static inline uint64_t __ll2c_ctpop64(uint64_t x){ uint64_t c=0; for(int i=0;i<64;i++) c+=(x>>i)&1; return c; }
static inline uint32_t __ll2c_ctpop32(uint32_t x){ return (uint32_t)__ll2c_ctpop64(x); }
static inline uint64_t __ll2c_ctlz64(uint64_t x){ uint64_t c=0; for(int i=63;i>=0;i--){ if((x>>i)&1) break; c++; } return c; }
static inline uint32_t __ll2c_ctlz32(uint32_t x){ uint32_t c=0; for(int i=31;i>=0;i--){ if((x>>i)&1) break; c++; } return c; }
static inline uint64_t __ll2c_cttz64(uint64_t x){ uint64_t c=0; for(int i=0;i<64;i++){ if((x>>i)&1) break; c++; } return c; }
static inline uint32_t __ll2c_cttz32(uint32_t x){ uint32_t c=0; for(int i=0;i<32;i++){ if((x>>i)&1) break; c++; } return c; }
'''

def referenced_globals(f):
    """names of @globals textually referenced in a function body"""
    out = set()
    for ln in f.body:
        for mm in re.finditer(r'@("(?:[^"]*)"|[-a-zA-Z$._0-9]+)', ln): out.add(mm.group(1).strip('"'))
    return out

def main():
    ap = argparse.ArgumentParser()
    ap.add_argument('inp'); ap.add_argument('out'); ap.add_argument('--entry', required=True)
    ap.add_argument('--models', default='')  # file listing symbols provided by hand-written C models (mangled names)
    ap.add_argument('--report', default='')
    ap.add_argument('--cand', default='')  # extra indirect-call candidates (model functions installed in hand-made vtables)
    ap.add_argument('--no-ctors', action='store_true')
    ap.add_argument('--types', default='')  # IR type names to emit even when unreachable (for models)
    a = ap.parse_args()
    m = parse_module(a.inp)
    model_syms = set()
    if a.models:
        model_syms = set(x.strip() for x in open(a.models) if x.strip() and not x.startswith('#'))
    em = Emitter(m); gl = Globals(m, em, model_syms)
    entries = a.entry.split(',')
    gl.shape = {n: shape_of(f.ret, [p[0] for p in f.params]) for n, f in m.funcs.items()}
    gl.extra_cand = set(x.split(':')[0] for x in a.cand.split(';') if x); gl.extra_shapes = set(x for x in a.cand.split(';') if x)
    gl.indirect_sites = []
    # dynamic initialisers: __cxx_global_var_init* functions, selected when a global they reference is reachable
    varinit = {}
    if not a.no_ctors:
        for n, f in m.funcs.items():
            if f.isdef and (n.startswith('__cxx_global_var_init') or n.startswith('_GLOBAL__sub_I_') and False):
                refs = set(g for g in referenced_globals(f) if g in m.globals and g != '__dso_handle')
                varinit[n] = refs
    ctor_sel = []
    for _round in range(12):
        gl.indirect_sites = []; gl.literals16 = []
        em.tdefs = {}; em.torder = []; em.tstate = {}
        work = list(entries) + list(ctor_sel); done = {}; unsupported = {}
        gwork = []; gdone = {}
        ext_funcs = set()
        while work or gwork:
            if work:
                n = work.pop()
                if n in done or n in ext_funcs: continue
                f = m.funcs.get(n)
                if f is None: raise SystemExit('no function ' + n)
                if not f.isdef or n in model_syms:
                    ext_funcs.add(n); continue
                try:
                    fe = FnEmitter(em, f, gl).emit()
                    done[n] = fe
                    work.extend(fe.used_funcs); gwork.extend(fe.used_globs)
                except Unsupported as e:
                    unsupported[n] = str(e); ext_funcs.add(n)
            else:
                n = gwork.pop()
                if n in gdone: continue
                g = m.globals.get(n)
                if g is None:
                    gdone[n] = None; continue
                fe = FnEmitter(em, None, gl)
                if g.get('init') is not None:
                    gl.in_vtable = n if n.startswith('_ZTV') else None
                    gl.cur_global = n
                    txt = gl.init(g['ty'], g['init'], fe)
                    gl.in_vtable = None
                else: txt = None
                gdone[n] = (g, txt)
                work.extend(fe.used_funcs); gwork.extend(fe.used_globs)
        newp = set(gl.taken_plain); newv = {k: set(v) for k, v in gl.vt_slots.items()}
        newc = sorted(n for n, refs in varinit.items() if n not in model_syms and any(g in gdone and not g.startswith('_ZGV') for g in refs))
        if newp == gl.cand_plain and newv == gl.cand_vt and newc == ctor_sel: break
        gl.cand_plain = newp; gl.cand_vt = newv; ctor_sel = newc
    for tn in a.types.split(','):
        if tn and tn in m.types: em.ctype(NamedT(tn))
    # emit
    out = [HELPERS]
    protos = []
    def proto(f, name):
        ps = [em.ctype(p[0]) for p in f.params]
        if f.vararg: ps.append('...')
        return '%s %s(%s)' % (em.ctype(f.ret), name, ', '.join(ps) or 'void')
    allf = set(done) | ext_funcs
    LIBC = ('strcmp','strlen','memcmp','bcmp','malloc','free','memchr','memcpy','memmove','memset','abort','realloc','calloc','strncpy','strncmp','strchr')
    for n in sorted(allf):
        f = m.funcs[n]
        if n in LIBC: continue
        try: protos.append(proto(f, gl.fname(n)) + ';')
        except Unsupported as e: unsupported[n] = 'proto: ' + str(e)
    gdefs = []
    ext_globals = []
    for n, gv in sorted(gdone.items()):
        if gv is None: continue
        g, txt = gv
        ct = em.ctype(g['ty'])
        if n.startswith('_ZTVN10__cxxabiv1'):
            gdefs.append('char* %s[8]; /* RTTI vtable of the C++ runtime: address only */' % gl.gname(n)); ext_globals.append(n); continue
        gdefs.append('typedef %s GT_%s;' % (ct, cid(n)))
        if txt is None and n not in model_syms:
            gdefs.append('%s %s; /* external, tentative */\n#define HAVE_%s 1' % (ct, gl.gname(n), gl.gname(n))); ext_globals.append(n)
        else:
            gdefs.append('extern %s %s;\n#define HAVE_%s 1' % (ct, gl.gname(n), gl.gname(n)))
    for n, gv in sorted(gdone.items()):
        if gv is None: continue
        g, txt = gv
        ct = em.ctype(g['ty'])
        if txt is not None: gdefs.append('%s %s = %s;' % (ct, gl.gname(n), txt))
    bodies = []
    for n, fe in sorted(done.items()):
        f = fe.f
        ps = []
        for k, (pt, pn, info) in enumerate(f.params):
            ps.append('%s %s' % (em.ctype(pt), fe.loc(pn) if pn is not None else 'unused%d' % k))
        if f.vararg: ps.append('...')
        b = ['%s %s(%s) {' % (em.ctype(f.ret), gl.fname(n), ', '.join(ps) or 'void')]
        pnames = set(fe.loc(p[1]) for p in f.params if p[1] is not None)
        for v, t in sorted(fe.decl.items()):
            if v not in pnames: b.append('  %s %s;' % (t, v))
        for al in fe.allocas: b.append('  ' + al)
        b.extend('  ' + x for x in fe.out)
        b.append('}')
        bodies.append('\n'.join(b))
    bodies.append('void __ll2c_global_ctors(void) {\n' + '\n'.join('  %s();' % gl.fname(n) for n in ctor_sel if n in done) + '\n}')
    stubs = []
    for n in sorted(ext_funcs):
        if n in model_syms or n.startswith('nondet_') or n in LIBC: continue
        f = m.funcs[n]
        if n in unsupported and f.isdef: why = 'untranslatable: ' + unsupported[n]
        else: why = 'unmodelled external'
        try:
            ps = ', '.join('%s a%d' % (em.ctype(p[0]), k) for k, p in enumerate(f.params))
            if f.vararg: ps += ', ...'
            r = em.ctype(f.ret)
            body = '__ll2c_unmodelled("UNMODELLED %s: %s");' % (why, n)
            if r != 'void': body += ' %s r_; __builtin_memset(&r_, 0, sizeof r_); return r_;' % r
            stubs.append('%s %s(%s) { %s }' % (r, gl.fname(n), ps or 'void', body))
        except Unsupported: pass
    out.append('#ifdef __CPROVER__\n#define __ll2c_unmodelled(m) do { __CPROVER_assert(0, m); __CPROVER_assume(0); } while (0)\n#else\n#define __ll2c_unmodelled(m) do { fprintf(stderr, "%s\\n", m); abort(); } while (0)\n#endif')
    out.append('\n'.join(em.tdefs[n] + ('\n#define HAVE_%s 1' % n.split()[1] if n.startswith('struct T_') else '') for n in em.torder))
    out.append('\n'.join(protos)); out.append('\n'.join(gdefs)); out.append('\n\n'.join(bodies)); out.append('/* ---- stubs ---- */'); out.append('\n'.join(stubs))
    open(a.out, 'w').write('\n\n'.join(out) + '\n')
    stubbed = sorted(n for n in ext_funcs if n not in model_syms and not n.startswith('nondet_') and n not in LIBC)
    rep = dict(literals16=gl.literals16, translated=sorted(done), stubbed=stubbed, unsupported=unsupported, model=sorted(model_syms & allf), ctors=ctor_sel,
               ext_globals=ext_globals, indirect_sites=[dict(fn=a_, shape=b_, slot=c_, cands=d_) for (a_, b_, c_, d_) in gl.indirect_sites])
    if a.report:
        import json; json.dump(rep, open(a.report, 'w'), indent=1)
    sys.stderr.write('ll2c: %d functions translated, %d model, %d stubbed, %d unsupported, %d globals, %d ctors\n' % (len(done), len(model_syms & allf), len(stubbed), len(unsupported), len(gdone), len(ctor_sel)))
    for n, w in unsupported.items(): sys.stderr.write('  unsupported %s: %s\n' % (n, w))

if __name__ == '__main__': main()
