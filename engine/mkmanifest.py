#!/usr/bin/env python3
"""Regenerates /verif/MANIFEST.json from the table below + which harness specs exist. Run after adding/removing a property check."""
import json, os
V = os.path.dirname(os.path.dirname(os.path.abspath(__file__)))
TECH = "bounded symbolic execution of the real code: clang-14 LLVM IR of the qxmpp TUs -> C (ll2c) -> cbmc 6.11 (SAT), nondeterministic inputs/pre-states, unwinding assertions, witness twin, native replay of counterexamples"
TRUST = "trusted: clang-14 IR generation, the ll2c IR->C translation (validated natively on every counterexample), cbmc; environment models at the libQt5/libstdc++ ABI boundary (listed in the evidence file); "
P = {
 'C01': ("serialize->parse identity of the codecs covered (typed scalar helpers over the whole value range; stream-management, SASL, SASL2, bind2, FAST nonzas over the DOM/writer tree model) for every field value inside the bound", "QDom/QXmlStreamWriter are a shared tree model (Qt's escaping and tokenising trusted); numbers and base64 abstract; strings <= 2 UTF-16 units; the remaining ~100 payload classes are outside the claim", "4 C01"),
 'C03': ("read-boundary independence: byte layer (real readyRead lambda, any valid UTF-8 <= 4 bytes, any 3-way split) and one inductive step of the unmodified processData from an arbitrary buffer state over abstract token streams", "QString::fromUtf8 replaced by a spec-level decoder validated against libQt5Core on 21 M strings per run; QRegularExpression/QDomDocument::setContent modelled over token sequences; real XML tokenisation outside the claim", "4 C03"),
 'C04': ("one step of the real QXmppOutgoingClient (handleStart, handleStream, handleStreamFeatures, handlePacketReceived, StarttlsManager) from an arbitrary private state satisfying the invariant 'TLS required and not encrypted => only the client itself or the STARTTLS step listens': nothing tagged credential/auth/bind/stanza/resume reaches the socket, encryption starts only after <proceed/>, give-up disconnects", "socket writes are classified by the type of the serializer; SASL/SASL2 managers cut at authenticate(); replies of client extensions before encryption are outside", "4 C04"),
 'C05': ("the mechanism chosen by the real chooseMechanism equals a reference written from the property text for every offer/disabled/preferred/credential combination inside the bound", "mechanism names from a fixed table chosen by symbolic index", "4 C05"),
 'C06': ("SCRAM/PLAIN/HT/DIGEST-MD5 client messages are assembled as the RFCs prescribe and unproven servers are refused, with hash/HMAC/PBKDF2 as a recording oracle", "crypto primitives are uninterpreted, functionally consistent oracles; SASLprep outside", "4 C06"),
 'C07': ("one step of OutgoingIqManager from an arbitrary request table: a request completes exactly once and only by a result/error with its id from the addressee", "QXmppTask/QXmppPromise replaced by the shadow whose contract C13 establishes; request table as class-level array model", "4 C07"),
 'C09': ("single inductive steps of the real StreamAckManager/C2sStreamManager from an arbitrary valid pre-state, each event kind against a reference transition", "class-level array model of QMap<uint,QXmppPacket>; task shadow; <= 4 (6) pending stanzas", "4 C09"),
 'C10': ("single steps (and a few two-event compositions) of the real QXmppOutgoingClient from an arbitrary private state: after a socket disconnect the client is unauthenticated with no session, disconnected is emitted exactly once iff a session existed, requests are completed unless resumable; next-address / redirect branches reconnect without reporting a session; handleStart resets per-stream state; a session is declared open exactly once and only when nothing is left to negotiate", "socket, timers, DNS and TLS configuration are ghost logs; the liveness half (a following attempt succeeds, three consecutive attempts) is outside this technique", "4 C10"),
 'C11': ("handleStanza of both carbon managers on an arbitrary bounded DOM tree: delivery implies outer from == own bare JID and the parsed element is the inner message of the carbon", "QXmppMessage::parse is a recording model; DOM tree model with 22 (40) elements", "4 C11"),
 'C12': ("one step of QXmppRosterManager from an arbitrary small roster: unauthorised pushes change nothing and are not acknowledged; authorised pushes are applied in order and acknowledged once; new sessions start empty", "class-level QMap models, task shadow, client accessors modelled", "4 C12"),
 'C13': ("every schedule of K operations on the REAL QXmppPromise/QXmppTask/TaskPrivate (incl. the libstdc++ shared_ptr/std::function they instantiate): continuation exactly once with the value, never after the context died, no leak / use after free", "QPointer liveness is a ghost flag; K <= 3 quick / 4 thorough", "4 C13"),
 'C14': ("CRC-32 table code vs bitwise reference, HMAC structure vs RFC 2104 with a hash oracle, encode/decode round trip per attribute group, integrity/fingerprint acceptance and memory safety of decode on arbitrary bounded buffers", "QDataStream/QHostAddress/QByteArray models; SHA-1 as oracle", "4 C14"),
 'C15': ("decode under a key implies a verified MESSAGE-INTEGRITY (the fact handleDatagram relies on) and the RFC 5245 priority formulas", "the ICE pair state machine and the liveness half need sockets/timers/event loop: outside the claim", "4 C15"),
 'C16': ("one step of the real QXmppIncomingClient from an arbitrary private state: nothing is bound, answered or routed before authentication; a routed stanza carries the authenticated address; jid becomes non-empty only through an approved exchange for exactly the parsed user", "socket, timers, password checker, serializeXml and DIGEST-MD5 grammar are models/cuts; routing tables of QXmppServer outside; one recorded known finding (reply applied to the current exchange)", "4 C16"),
 'C17': ("per extension field and for all fields at once: where the real QXmppMessage::toXml/serializeExtensions writes it in public, sensitive and combined mode (public part only from the whitelist; All = Public + Sensitive, each element in exactly one part), and that parse(public)+parse(sensitive) restores every getter", "extension classes of other TUs are one-element stand-ins; strings exactly 1 unit; XHTML-IM and OMEMO outside", "4 C17"),
 'C08': ("every IQ get/set is answered exactly once (manager contract: true => exactly one reply, false => nothing sent; client fallback error reply on the wire) and result/error/invalid IQs are never answered, for checkIsIqRequest/sendIqReply/handleIqRequests, five real managers and the client's extension chain", "QXmppClient/QXmppOutgoingClient in raw storage; replies recorded through the real getters or the writer tree; <= 2 mock extensions", "4 C08"),
 'C19': ("receiver and sender of in-band bytestreams: one step from an arbitrary job state (accept iff sender, sid, state and 16-bit sequence match; close verdict iff size and hash match) plus two-block histories from the constructor state", "QIODevice, QCryptographicHash object and sendPacket are models; SOCKS5 transfers outside the claim", "4 C19"),
 'C20': ("the string handed to SHA-1 by verificationString is order- and duplicate-blind and equals a reference built by XEP-0115 5.1 inside the bound", "SHA-1 is a recording oracle; tiny alphabets", "4 C20"),
}
ORDER = ['C01','C02','C03','C04','C05','C06','C07','C08','C09','C10','C11','C12','C13','C14','C15','C16','C17','C18','C19','C20']
NA_REASON = {}
def main():
    checks = []; na = []
    global DONE; DONE = set(json.load(open(os.path.join(V, 'engine', 'done.json'))))
    try: NA_REASON.update(json.load(open(os.path.join(V, 'engine', 'not_applicable.json'))))
    except Exception: pass
    for pid in ORDER:
        if os.path.exists(os.path.join(V, 'harness', pid, 'spec.py')) and pid in P and pid not in NA_REASON and pid in DONE:
            text, note, ref = P[pid]
            checks.append({"property_id": pid, "quick_cmd": "./check %s quick" % pid, "thorough_cmd": "./check %s thorough" % pid, "evidence_file": "/verif/evidence/%s.json" % pid,
                           "replay_cmd_template": "./check %s --replay {path}" % pid, "engine": "ll2c+cbmc",
                           "level_claimed": {"category": "model_checking", "text": "bounded model checking (holds within the stated bounds only): " + text, "design_ref": "DESIGN.md " + ref},
                           "level_note": TRUST + note, "technique": TECH})
        else:
            na.append({"property_id": pid, "reason": NA_REASON.get(pid, "no solver-based check has been built for this property yet (see DESIGN.md section 5)")})
    m = {"version": 1, "setup_cmd": "sh ./setup.sh",
         "hooks": {"guard": "QXMPP_VERIF", "enable": "no hook is needed: harnesses reach file-static code by #include-ing the .cpp; checks compile /repo sources with -DQXMPP_VERIF=1 (no source line depends on it)",
                   "baseline_off_cmd": "ctest --test-dir /repo/_build -j8 --timeout 900", "source_commits": [], "add_only": True},
         "engines": [{"name": "ll2c+cbmc", "path": "engine/", "serves_properties": [c['property_id'] for c in checks],
                      "kind_free_text": "real qxmpp TUs -> LLVM IR (clang-14) -> C (own translator engine/ll2c.py) -> cbmc 6.11 bounded model checking with unwinding assertions; environment = C models at the libQt5/libstdc++ ABI boundary (models/)"}],
         "checks": checks, "not_applicable": na,
         "notes": "Every check prints VIOLATION only after the solver's counterexample was replayed natively; time-outs, model limits and unreachable witnesses make a check exit 2 (inconclusive), never 0."}
    json.dump(m, open(os.path.join(V, 'MANIFEST.json'), 'w'), indent=1)
    print('%d checks, %d not applicable' % (len(checks), len(na)))
if __name__ == '__main__': main()
