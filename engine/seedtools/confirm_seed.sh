#!/bin/sh
# usage: confirm_seed.sh <seed-id> [keep]   re-confirms /verif/seeded/<id> at /repo HEAD in a scratch worktree (removed afterwards unless 'keep'):
# patch applies, library builds, demo fails with the change and passes without it, ctest with the change fails only the always-failing test.
# Demo contract: seeded/<id>/demo/ is copied to <worktree>/demo/; `sh demo/build.sh` builds demo/demo against <worktree>/_build/src; exit 0 = property respected.
id=$1; S=/verif/seeded/$id; W=/tmp/confirm_$id
git -C /repo worktree remove --force $W 2>/dev/null; rm -rf $W
git -C /repo worktree add --detach $W HEAD >/dev/null 2>&1 || exit 2
cd $W
cmake -G Ninja -S . -B _build -DBUILD_TESTS=ON >/dev/null 2>&1
cmake --build _build --target QXmppQt5 >/dev/null 2>&1 || { echo "base build failed"; exit 2; }
cp -r $S/demo $W/demo
# older demos hard-code the sub-agent's worktree path: point them at this worktree
grep -rlE '/tmp/[A-Za-z0-9_./-]*' $W/demo/build.sh >/dev/null 2>&1 && sed -i -E "s#^ROOT=/tmp/[A-Za-z0-9_./-]+#ROOT=$W#" $W/demo/build.sh
rundemo() { (cd $W && sh demo/build.sh >/tmp/confirm_$id.build 2>&1 && QT_QPA_PLATFORM=offscreen LD_LIBRARY_PATH=$W/_build/src timeout 600 demo/demo >/tmp/confirm_$id.out 2>&1); echo $?; }
without=$(rundemo)
applies=true; git apply $S/patch.diff 2>/dev/null || applies=false
builds=true; cmake --build _build >/dev/null 2>&1 || builds=false
with=$(rundemo)
fails=$(QT_QPA_PLATFORM=offscreen ctest --test-dir _build -j8 --timeout 900 2>/dev/null | grep -E "^\s*[0-9]+ - .*\((Failed|Timeout|SEGFAULT|Subprocess)" | awk '{print $3}' | tr '\n' ' ')
head=$(git -C /repo rev-parse --short HEAD)
printf '{"repo_head": "%s", "patch_applies": %s, "library_builds_with_change": %s, "demo_exit_with_change": %s, "demo_exit_without_change": %s, "ctest_failures_with_change": "%s"}\n' "$head" $applies $builds "$with" "$without" "$fails" | tee $S/confirm.json
if [ "$2" != keep ]; then cd /; git -C /repo worktree remove --force $W; rm -rf $W; fi
