#!/usr/bin/env python3
# usage: meta.py <id> <prop> <<< JSON-ish fields on stdin (change, needs, first_run, detected_by (list), history)
import json, sys
id_, prop = sys.argv[1], sys.argv[2]
d = json.load(sys.stdin)
m = dict(id=id_, property=prop, source='fresh sub-agent, property text + own scratch worktree (round 3)', change=d['change'], needs_to_manifest=d['needs'],
         confirmed_by_me=['seeded/%s/confirm.json (take_seed.sh in the sub-agent scratch worktree: diff only under src/, library builds with and without, demo exit 1 with / 0 without, ctest with the change fails only tst_qxmppiceconnection apart from the port-12345 flakes under load)' % id_],
         checks_run='VP_REPO=<worktree with the change> ./check %s quick' % prop, first_run=d['first_run'], detected_by=d.get('detected_by', []), history=d.get('history', ''))
json.dump(m, open('/verif/seeded/%s/meta.json' % id_, 'w'), indent=1)
print('wrote', id_)
