#!/bin/sh
# usage: take_seed.sh <tag> <seed-id>
# Confirms a sub-agent's change in ITS scratch worktree /tmp/seed/<tag> (change applied, demo under demo/): the diff touches only src/, the library
# builds with and without it, demo exit != 0 with / == 0 without, ctest with the change fails only the always-failing test. Copies patch + demo to
# /verif/seeded/<id>/ and writes confirm.json. Leaves the worktree WITH the change applied (for VP_REPO=<worktree> ./check ...).
tag=$1; id=$2; W=/tmp/seed/$tag; S=/verif/seeded/$id
cd $W || exit 2
mkdir -p $S/demo
git diff -- src > $S/patch.diff
other=$(git status --porcelain | grep -v '^?? demo/' | grep -v '^?? _build/' | grep -v '^ M src/' | tr '\n' ';')
for f in demo/*; do case "$f" in demo/demo|*.o|*.log) ;; *) [ -f "$f" ] && [ $(stat -c %s "$f") -lt 300000 ] && cp "$f" $S/demo/ ;; esac; done
rundemo() { (cd $W && sh demo/build.sh >/tmp/seed/$tag.build.log 2>&1 && QT_QPA_PLATFORM=offscreen timeout 600 demo/demo >/tmp/seed/$tag.demo.log 2>&1); echo $?; }
cmake --build _build -j8 >/dev/null 2>&1; b1=$?
with=$(rundemo)
fails=$(QT_QPA_PLATFORM=offscreen ctest --test-dir _build -j6 --timeout 900 2>/dev/null | grep -E "^\s*[0-9]+ - .*\((Failed|Timeout|SEGFAULT|Subprocess|Not Run)" | awk '{print $3}' | tr '\n' ' ')
git apply -R $S/patch.diff; cmake --build _build -j8 >/dev/null 2>&1; b0=$?
without=$(rundemo)
git apply $S/patch.diff; cmake --build _build -j8 >/dev/null 2>&1
printf '{"repo_head": "%s", "confirmed_in": "the sub-agent scratch worktree, by me (take_seed.sh)", "diff_only_src": %s, "library_builds_with_change": %s, "library_builds_without_change": %s, "demo_exit_with_change": %s, "demo_exit_without_change": %s, "ctest_failures_with_change": "%s"}\n' \
  "$(git -C /repo rev-parse --short HEAD)" "$([ -z "$other" ] && echo true || echo "\"other: $other\"")" "$([ $b1 = 0 ] && echo true || echo false)" "$([ $b0 = 0 ] && echo true || echo false)" "$with" "$without" "$fails" | tee $S/confirm.json
