#!/bin/sh
# usage: mkseedwt.sh <tag> <Cxx>   -> scratch worktree /tmp/seed/<tag> of /repo HEAD + /tmp/seed/<tag>.property.txt (text of the property only)
set -e
tag=$1; pid=$2
mkdir -p /tmp/seed
git -C /repo worktree add --detach /tmp/seed/$tag HEAD >/dev/null 2>&1
python3 - "$pid" > /tmp/seed/$tag.property.txt <<'PY'
import json,sys
for l in open('/verif/properties.jsonl'):
    p=json.loads(l)
    if p['id']==sys.argv[1]:
        print('PROPERTY', p['id'], '-', p['title']); print(); print('Statement:', p['statement']); print()
        print('Quantified over:', ', '.join(p['quantifier']['over']), '-', p['quantifier']['text']); print()
        print('Why the existing tests cannot settle it:', p['why_tests_cant']); print()
        print('Anchors (where the behaviour lives):'); print(json.dumps(p['anchors'], indent=1))
PY
echo /tmp/seed/$tag
