#!/usr/bin/env python3
"""Driver of the solver-based checks: /repo sources -> LLVM IR -> C (ll2c) -> cbmc, per property.

usage: vp.py <Cxx> quick|thorough [--only inst] [--keep] [--jobs N]
       vp.py <Cxx> --replay <file>
Exit: 0 holds within bounds on everything explored / 1 VIOLATION (replayed) / 2 inconclusive (never success).
"""
import sys, os, re, json, time, subprocess, shutil, tempfile, importlib.util, concurrent.futures, resource, hashlib, threading

VERIF = os.path.dirname(os.path.dirname(os.path.abspath(__file__)))
REPO = os.environ.get('VP_REPO', '/repo')
ENGINE = os.path.join(VERIF, 'engine')
MODELS = os.path.join(VERIF, 'models')

FALLBACK_DEFS = "-DQT_CORE_LIB -DQT_DISABLE_DEPRECATED_BEFORE=0x060900 -DQT_NETWORK_LIB -DQT_NO_CAST_FROM_ASCII -DQT_NO_CAST_FROM_BYTEARRAY -DQT_NO_CAST_TO_ASCII -DQT_NO_DEBUG -DQT_NO_FOREACH -DQT_NO_KEYWORDS -DQT_NO_URL_CAST_FROM_STRING -DQT_USE_QSTRINGBUILDER -DQT_XML_LIB -DQXmppQt5_EXPORTS"
FALLBACK_INCS = "-I%(R)s/_build/src/QXmppQt5_autogen/include -I%(R)s/src/base -I%(R)s/src/client -I%(R)s/src/server -I%(R)s/_build/src -isystem /usr/include/x86_64-linux-gnu/qt5 -isystem /usr/include/x86_64-linux-gnu/qt5/QtCore -isystem /usr/lib/x86_64-linux-gnu/qt5/mkspecs/linux-g++ -isystem /usr/include/x86_64-linux-gnu/qt5/QtNetwork -isystem /usr/include/x86_64-linux-gnu/qt5/QtXml"
CXXF = "-std=c++20 -O1 -fPIC -fno-inline -fno-vectorize -fno-slp-vectorize -fno-unroll-loops -fno-strict-aliasing -fno-discard-value-names -DNDEBUG -Wno-everything"
RANGES_TUS = ('QXmppSaslManager.cpp', 'QXmppMessage.cpp', 'QXmppUri.cpp')

CBMC_BASE = ['--unwinding-assertions', '--undefined-shift-check', '--signed-overflow-check',
             '--drop-unused-functions', '--no-malloc-may-fail', '--max-field-sensitivity-array-size', '512', '--no-standard-checks',
             '--bounds-check', '--pointer-check', '--div-by-zero-check']

# loops of the C++ runtime whose trip count is a compile-time constant (string-literal copies): bound = longest literal + 2
DEFAULT_LOOP_BOUNDS = {r'^_ZNSt6ranges14__copy_or_move': 64}
def cid(n):
    if re.fullmatch(r'[A-Za-z_][A-Za-z0-9_]*', n): return n
    h = hashlib.md5(n.encode()).hexdigest()[:8]
    return re.sub(r'[^A-Za-z0-9_]', '_', n)[:60] + '_' + h

def sid_hash(units):
    M = (1 << 64) - 1; h = 0x1E3779B97F4A7C15 ^ len(units)
    for c in units: h = (((h << 7) | (h >> 57)) & M) ^ c
    return h
def check_sid_injective(literals):
    """mirror of vpl_hash16 in models/qt_core.c: every prefix (len > 3) of every literal of the translated program must get its own id"""
    seen = {}
    for lit in literals:
        for n in range(4, len(lit) + 1):
            pre = tuple(lit[:n]); h = sid_hash(pre)
            if seen.setdefault(h, pre) != pre: return 'collision %r vs %r' % (seen[h], pre)
    return True

PARTIAL = [False]
def out_root():
    """evidence/ and replay/ go to /verif only for FULL runs on /repo; scratch-worktree runs (VP_REPO: mutation experiments) and partial runs
    (--only: development) write under $TMPDIR, so a committed evidence file is always the record of a complete run of the registered command"""
    if REPO == '/repo' and not PARTIAL[0]: return VERIF
    return os.path.join(tempfile.gettempdir(), 'vp_out_' + re.sub(r'\W', '_', REPO) + ('_partial' if PARTIAL[0] else ''))

def log(*a):
    sys.stderr.write(' '.join(str(x) for x in a) + '\n'); sys.stderr.flush()

def build_flags():
    """-D / -I flags of the real build, from _build/build.ninja (so macros/include order match the tested library)."""
    nin = os.path.join('/repo', '_build', 'build.ninja')   # generated headers and flags always come from /repo/_build
    defs = incs = None
    if os.path.exists(nin):
        lines = open(nin, errors='replace').read().split('\n')
        for i, ln in enumerate(lines):
            if ln.startswith('build src/CMakeFiles/QXmppQt5.dir/base/QXmppUtils.cpp.o:'):
                for l2 in lines[i + 1:i + 12]:
                    l2 = l2.strip()
                    if l2.startswith('DEFINES ='): defs = l2.split('=', 1)[1].strip()
                    if l2.startswith('INCLUDES ='): incs = l2.split('=', 1)[1].strip()
                break
    src = 'build.ninja'
    if not defs or not incs:
        defs = FALLBACK_DEFS; incs = FALLBACK_INCS % dict(R='/repo'); src = 'recorded copy'
    if REPO != '/repo': incs = incs.replace('/repo/src', REPO + '/src')   # generated headers stay in /repo/_build
    return defs.split(), incs.split(), src

def run(cmd, cwd=None, timeout=None, **kw):
    return subprocess.run(cmd, cwd=cwd, timeout=timeout, stdout=subprocess.PIPE, stderr=subprocess.PIPE, text=True, **kw)

def model_symbols(paths):
    """function and object names defined (non-static) at column 0 in the model C files"""
    syms = set()
    fre = re.compile(r'^(?!static\b|typedef\b|struct\b|#|extern\b|/)[A-Za-z_][\w \t\*]*?[ \*]([A-Za-z_]\w*)\s*\(')
    gre = re.compile(r'^(?!static\b|typedef\b|#|extern\b|/)[A-Za-z_][\w \t\*]*?[ \*]G_([A-Za-z_]\w*)\s*(=|;|\[)')
    for p in paths:
        for ln in open(p):
            m = fre.match(ln)
            if m: syms.add(m.group(1))
            m = gre.match(ln)
            if m: syms.add(m.group(1))
            m = re.match(r'^//\s*MODEL:\s*(\S+)', ln)
            if m: syms.add(m.group(1))
    return syms

class Group:
    """one translated program (harness + real TUs) shared by several cbmc instances"""
    def __init__(s, spec, g, work):
        s.spec = spec; s.g = g; s.dir = os.path.join(work, g['name']); os.makedirs(s.dir, exist_ok=True)
        s.hdir = spec['_dir']
    def model_paths(s):
        out = []
        for mname in s.g.get('models', []):
            p = os.path.join(s.hdir, mname) if os.path.exists(os.path.join(s.hdir, mname)) else os.path.join(MODELS, mname)
            if not os.path.exists(p): raise SystemExit('model file not found: ' + mname)
            out.append(p)
        return out
    def build(s):
        t0 = time.time()
        defs, incs, src = build_flags(); s.flag_source = src
        cxx = ['clang++-14'] + CXXF.split() + defs + incs + ['-I' + MODELS, '-I' + s.hdir, '-I' + os.path.join(REPO, 'src'), '-DQXMPP_VERIF=1']
        for k, v in s.g.get('cxxdefs', {}).items(): cxx.append('-D%s=%s' % (k, v))
        if s.g.get('shadow_task'): cxx += ['-include', os.path.join(MODELS, 'shadow', 'task_shadow.h')]
        lls = []
        srcs = [os.path.join(s.hdir, s.g['harness'])] + [os.path.join(REPO, t) for t in s.g.get('tus', [])]
        def comp(p):
            out = os.path.join(s.dir, os.path.basename(p) + '.ll')
            c = list(cxx)
            if os.path.basename(p) in RANGES_TUS or s.g.get('ranges_shim'): c += ['-include', os.path.join(MODELS, 'ranges_shim.h')]
            r = run(c + ['-S', '-emit-llvm', p, '-o', out])
            if r.returncode != 0: raise BuildError('clang failed on %s:\n%s' % (p, r.stderr[-4000:]))
            return out
        with concurrent.futures.ThreadPoolExecutor(8) as ex: lls = list(ex.map(comp, srcs))
        linked = os.path.join(s.dir, 'linked.ll'); opt = os.path.join(s.dir, 'opt.ll')
        r = run(['llvm-link-14', '-S'] + lls + ['-o', linked])
        if r.returncode != 0: raise BuildError('llvm-link failed:\n' + r.stderr[-3000:])
        r = run(['opt-14', '-S', '-lowerinvoke', '-simplifycfg', linked, '-o', opt])
        if r.returncode != 0: raise BuildError('opt failed:\n' + r.stderr[-3000:])
        mp = s.model_paths(); syms = model_symbols([os.path.join(MODELS, 'base.h')] + mp) | set(s.g.get('model_syms', []))
        symf = os.path.join(s.dir, 'model_syms.txt'); open(symf, 'w').write('\n'.join(sorted(syms)) + '\n')
        entries = sorted(set(i['entry'] for i in s.g['instances']))
        cmd = [sys.executable, os.path.join(ENGINE, 'll2c.py'), opt, os.path.join(s.dir, 'g.c'), '--entry', ','.join(entries), '--models', symf, '--report', os.path.join(s.dir, 'report.json')]
        if s.g.get('cand'): cmd += ['--cand', s.g['cand']]
        if s.g.get('types'): cmd += ['--types', ','.join(s.g['types'])]
        # block layout of the generated C: 'llvm' (LLVM's own order; the layout the older harnesses were tuned with) or 'wto' (weak topological order:
        # code after a loop comes after the loop body, so loop exits merge in cbmc - decisive where real code has loops with symbolic trip count followed
        # by heavy code, but merging can also cost more memory than duplicating). Per group (`block_order`), an explicit LL2C_ORDER in the environment wins.
        env = dict(os.environ); env['LL2C_ORDER'] = os.environ.get('LL2C_ORDER') or s.g.get('block_order', 'llvm'); s.block_order = env['LL2C_ORDER']
        r = run(cmd, env=env)
        if r.returncode != 0: raise BuildError('ll2c failed:\n' + r.stderr[-4000:] + r.stdout[-2000:])
        s.ll2c_msg = r.stderr.strip()
        s.vpl_funcs = set()
        for p_ in mp:
            s.vpl_funcs |= set(re.findall(r'^static [\w \*]*?\b(vpl_\w+)\s*\(', open(p_).read(), re.M))
        s.report = json.load(open(os.path.join(s.dir, 'report.json')))
        s.sid_check = check_sid_injective(s.report.get('literals16', []))
        if s.sid_check is not True: raise BuildError('string-id hash is not injective on the literals of this program: %s' % (s.sid_check,))
        s.build_s = time.time() - t0
        # one main per instance
        for inst in s.g['instances']:
            # pointer/bounds checks stay on for the translated real code (g.c); model code is trusted environment
            mc = ['#include "g.c"', '#pragma CPROVER check push', '#pragma CPROVER check disable "pointer"', '#pragma CPROVER check disable "bounds"',
                  '#include "%s"' % os.path.join(MODELS, 'base.h')]
            mc += ['#include "%s"' % p for p in mp]
            mc.append('#pragma CPROVER check pop')
            mc.append('int main(int argc, char **argv) {\n#ifndef __CPROVER__\n vp_native_open(argc > 1 ? argv[1] : 0);\n#endif\n vp_base_init(); __ll2c_global_ctors(); F_%s();\n#ifdef __CPROVER__\n __CPROVER_assert(0, "WITNESS reachability of harness end");\n#else\n vp_native_done();\n#endif\n return 0; }' % inst['entry'])
            open(os.path.join(s.dir, 'main_%s.c' % inst['name']), 'w').write('\n'.join(mc) + '\n')

    def model_loops(s, inst):
        """ids of all loops in model code (functions not generated by ll2c): they get the model loop bound"""
        if not hasattr(s, '_loops'):
            cmd = ['cbmc', 'main_%s.c' % inst['name'], '--show-loops']
            for k, v in inst.get('cdefs', {}).items(): cmd.append('-D%s=%s' % (k, v))
            r = run(cmd, cwd=s.dir)
            s._loops = [l for l in re.findall(r'^Loop (\S+):', r.stdout, re.M) if not l.startswith('F_') and not l.startswith('__CPROVER')]
        return s._loops

class BuildError(Exception): pass

RES_RE = re.compile(r'^\[(.*?)\] (?:line (\d+) )?(.*): (SUCCESS|FAILURE|UNKNOWN|ERROR)$')

def limit_mem(gb):
    def f():
        b = int(gb * (1 << 30)); resource.setrlimit(resource.RLIMIT_AS, (b, b)); os.setsid()
    return f

def cbmc_cmd(grp, inst, extra=()):
    cmd = ['cbmc', 'main_%s.c' % inst['name']] + CBMC_BASE + ['--object-bits', str(inst.get('object_bits', 10))]
    cmd += ['--unwind', str(inst.get('unwind', 4))]
    uws = list(inst.get('unwindset', []))
    mlb = inst.get('model_loop_bound', 42)
    for lid in grp.model_loops(inst): uws.append('%s:%d' % (lid, 260 if lid.startswith('vplL_') else mlb))   # vplL_*: libc-style models over raw buffers
    lb = dict(DEFAULT_LOOP_BOUNDS); lb.update(grp.g.get('loop_bounds', {})); lb.update(inst.get('loop_bounds', {}))
    for pat, bound in lb.items():
        for fn in grp.report['translated']:
            if re.search(pat, fn):
                for k in range(3): uws.append('F_%s.%d:%d' % (cid(fn), k, bound))
    if uws: cmd += ['--unwindset', ','.join(uws)]
    for k, v in inst.get('cdefs', {}).items(): cmd.append('-D%s=%s' % (k, v))
    if inst.get('pointer_overflow', False): cmd.append('--pointer-overflow-check')
    solver = inst.get('solver', 'minisat')
    if solver == 'cadical': cmd += ['--sat-solver', 'cadical']
    elif solver == 'kissat': cmd += ['--external-sat-solver', 'kissat']
    elif solver == 'cvc5': cmd += ['--cvc5', '--slice-formula']
    elif solver == 'minisat': pass
    cmd += list(inst.get('cbmc_flags', [])) + list(extra)
    return cmd

def run_instance(grp, inst, tier):
    """returns dict(status=pass|violation|inconclusive, ...)"""
    t0 = time.time()
    cmd = cbmc_cmd(grp, inst, ['--trace', '--trace-hex'] if False else [])
    tmo = inst.get('timeout_s', 300) if tier == 'quick' else inst.get('timeout_thorough_s', inst.get('timeout_s', 300) * 3)
    # the caps in the specs are sized for this machine running ONE check; the acceptance harness runs many checks at once
    # (measured: 8x slower), so the effective cap is scaled. Hitting it is still 'inconclusive', never success.
    tmo = int(tmo * float(os.environ.get('VP_TIMEOUT_SCALE', '5')))
    mem = inst.get('mem_gb', 8)
    env = dict(os.environ)
    if inst.get('solver') == 'cvc5': env['PATH'] = os.path.join(ENGINE, 'shim') + ':' + env['PATH']
    outp = os.path.join(grp.dir, 'cbmc_%s.log' % inst['name'])
    timed_out = False
    with open(outp, 'w') as fo:
        p = subprocess.Popen(['/usr/bin/time', '-f', 'VP_RSS_KB=%M', '-o', outp + '.time'] + cmd, cwd=grp.dir, stdout=fo, stderr=subprocess.STDOUT, preexec_fn=limit_mem(mem), env=env)
        try: p.wait(timeout=tmo)
        except subprocess.TimeoutExpired:
            timed_out = True
            try: os.killpg(p.pid, 9)
            except Exception: pass
            p.wait()
    wall = time.time() - t0
    txt = open(outp, errors='replace').read()
    rss = 0
    try:
        mm = re.search(r'VP_RSS_KB=(\d+)', open(outp + '.time').read()); rss = int(mm.group(1)) // 1024 if mm else 0
    except Exception: pass
    res = dict(name=inst['name'], entry=inst['entry'], wall_s=round(wall, 2), rss_mb=rss, cmd=' '.join(cmd), log=outp, props=[], unwind=inst.get('unwind', 4))
    if timed_out:
        res.update(status='inconclusive', why='time cap %ds hit' % tmo); return res
    props = []
    for ln in txt.split('\n'):
        m = RES_RE.match(ln.strip())
        if m: props.append(dict(id=m.group(1), line=m.group(2), desc=m.group(3), result=m.group(4)))
    res['props'] = props
    m = re.search(r'Runtime Solver: ([\d.e+-]+)s', txt);
    res['solver_s'] = round(sum(float(x) for x in re.findall(r'Runtime Solver: ([\d.e+-]+)s', txt)), 3)
    res['solver_calls'] = len(re.findall(r'Runtime Solver:', txt)) or len(re.findall(r'Running propositional reduction', txt))
    res['vccs'] = (re.findall(r'Generated (\d+) VCC\(s\), (\d+) remaining', txt) or [(0, 0)])[-1]
    if not props or ('VERIFICATION FAILED' not in txt and 'VERIFICATION SUCCESSFUL' not in txt):
        tail = txt[-1500:]
        res.update(status='inconclusive', why='cbmc produced no verdict (rc=%s): %s' % (p.returncode, tail.replace('\n', ' | ')[-600:])); return res
    wit = [q for q in props if q['desc'].startswith('WITNESS')]
    fails = [q for q in props if q['result'] != 'SUCCESS' and not q['desc'].startswith('WITNESS')]
    res['obligations'] = len(props) - len(wit); res['discharged'] = len([q for q in props if q['result'] == 'SUCCESS'])
    res['witness_reached'] = bool(wit) and all(q['result'] == 'FAILURE' for q in wit)
    propfails = [q for q in fails if q['desc'].startswith('PROP:') and q['result'] == 'FAILURE']
    other = [q for q in fails if q not in propfails]
    if other:
        # model capacity, unmodelled externals, unwinding, pointer checks inside translated code ...
        safety = [q for q in other if not (q['desc'].startswith('MODEL:') or q['desc'].startswith('UNMODELLED') or 'unwinding assertion' in q['desc'] or 'recursion unwinding' in q['desc'])]
        res['other_failures'] = other[:20]
        # cbmc assumes a check after it failed, so everything only reachable through it comes back UNKNOWN: a definite FAILURE is the counterexample to
        # trace, UNKNOWN entries are never picked first, and UNKNOWN entries alone do not mask a definite property failure (the native replay arbitrates)
        safety.sort(key=lambda q: q['result'] != 'FAILURE')
        if safety and inst.get('safety_is_property') and (safety[0]['result'] == 'FAILURE' or not propfails):
            res.update(status='violation', failing=(propfails + safety)[:8] if safety[0]['result'] != 'FAILURE' else (safety[:5] + propfails[:3]), kind='safety'); return res
        if propfails and all(q['result'] == 'UNKNOWN' for q in other):
            res.update(status='violation', failing=propfails[:8], kind='property'); return res
        res.update(status='inconclusive', why='non-property assertion failed: ' + '; '.join('%s (%s)' % (q['desc'], q['id']) for q in other[:6])); return res
    if propfails:
        res.update(status='violation', failing=propfails[:8], kind='property'); return res
    if not res['witness_reached']:
        res.update(status='inconclusive', why='harness end not reachable (vacuous): witness assertion was not violated'); return res
    res['status'] = 'pass'
    return res

def get_trace(grp, inst, prop_id, tmo=900):
    """re-run with --trace --json-ui for one failing property; returns the input list [(id, value)]"""
    cmd = cbmc_cmd(grp, inst, ['--trace', '--json-ui', '--property', prop_id])
    env = dict(os.environ)
    try:
        r = subprocess.run(cmd, cwd=grp.dir, stdout=subprocess.PIPE, stderr=subprocess.DEVNULL, text=True, timeout=tmo, preexec_fn=limit_mem(inst.get('mem_gb', 8) * 1.5), env=env)
        js = json.loads(r.stdout)
    except Exception as e:
        return None, 'trace run failed: %s' % e
    cands = []
    for item in js:
        if not isinstance(item, dict): continue
        if 'trace' in item: cands.append(item)
        for rs in item.get('result', []):
            if 'trace' in rs: cands.append(rs)
    for rs in cands:
        if str(rs.get('status', '')).lower() in ('failure', 'failed'):
            inputs = []
            for st in rs['trace']:
                if st.get('stepType') == 'input' and st.get('inputID') in ('u8', 'u16', 'u32', 'u64', 'bool'):
                    v = st['values'][0]
                    val = int(v['binary'], 2) if v.get('binary') else int(re.sub(r'[uUlL]+$', '', str(v.get('data', '0'))))
                    inputs.append([st.get('inputID'), val])
            return dict(desc=rs.get('description'), inputs=inputs), None
    return None, 'no failing trace in json output'

def native_replay(grp, inst, inputs):
    """build generated C + models with gcc and run on the solver's inputs. returns (reproduced, text)"""
    exe = os.path.join(grp.dir, 'native_%s' % inst['name'])
    cmd = ['gcc', '-O0', '-w', '-fwrapv', '-falign-functions=16', '-o', exe, 'main_%s.c' % inst['name'], '-DVP_NATIVE=1']
    for k, v in inst.get('cdefs', {}).items(): cmd.append('-D%s=%s' % (k, v))
    r = run(cmd, cwd=grp.dir)
    if r.returncode != 0: return None, 'native build failed: ' + r.stderr[-800:]
    inf = exe + '.in'; open(inf, 'w').write('\n'.join(str(v) for (_i, v) in inputs) + '\n')
    try: r = run([exe, inf], cwd=grp.dir, timeout=60)
    except subprocess.TimeoutExpired: return None, 'native run timed out'
    return (r.returncode == 77), 'rc=%d %s' % (r.returncode, (r.stderr or '')[-400:])

def load_spec(pid):
    d = os.path.join(VERIF, 'harness', pid); p = os.path.join(d, 'spec.py')
    if not os.path.exists(p): raise SystemExit('no harness spec for ' + pid)
    sp = importlib.util.spec_from_file_location('spec_' + pid, p); mod = importlib.util.module_from_spec(sp); sp.loader.exec_module(mod)
    spec = mod.SPEC; spec['_dir'] = d; spec['_mod'] = mod
    # additional groups written by other authors: harness/<Cxx>/spec_*.py with GROUPS (+ optional BOUNDS / OUTSIDE / ASSUMPTIONS)
    for extra in sorted(os.listdir(d)):
        if not re.fullmatch(r'spec_\w+\.py', extra): continue
        sp = importlib.util.spec_from_file_location('spec_%s_%s' % (pid, extra[:-3]), os.path.join(d, extra)); m2 = importlib.util.module_from_spec(sp); sp.loader.exec_module(m2)
        have = set(g['name'] for g in spec['groups'])
        for g in m2.GROUPS:
            if g['name'] in have: raise SystemExit('duplicate group name %s in %s' % (g['name'], extra))
            spec['groups'].append(g)
        for k, attr in (('bounds', 'BOUNDS'), ('outside', 'OUTSIDE'), ('assumptions', 'ASSUMPTIONS')):
            spec[k] = list(spec.get(k, [])) + list(getattr(m2, attr, []))
    return spec

def known_findings(pid):
    known = {}; fixed = []
    p = os.path.join(VERIF, 'known_findings.txt')
    if os.path.exists(p):
        for ln in open(p):
            ln = ln.strip()
            m = re.match(r'^known: property=(\S+) key=(\S+) (.*)$', ln)
            if m and m.group(1) == pid: known[m.group(2)] = m.group(3)
            m = re.match(r'^fixed: property=(\S+) (.*)$', ln)
            if m and m.group(1) == pid: fixed.append(m.group(2))
    return known, fixed

def main():
    args = sys.argv[1:]
    if len(args) < 2: raise SystemExit(__doc__)
    pid, tier = args[0], args[1]
    if tier == '--replay':
        return replay_file(pid, args[2])
    only = None; keep = False; jobs = None
    if '--only' in args: only = args[args.index('--only') + 1].split(','); PARTIAL[0] = True
    if '--keep' in args: keep = True
    if '--jobs' in args: jobs = int(args[args.index('--jobs') + 1])
    if tier not in ('quick', 'thorough'): raise SystemExit('tier must be quick|thorough')
    tier = os.environ.get('VERIF_TIER', tier) if os.environ.get('VERIF_TIER') in ('quick', 'thorough') and False else tier
    seed = int(os.environ.get('VERIF_SEED', '0') or 0)
    t_start = time.time()
    spec = load_spec(pid)
    known, fixed = known_findings(pid)
    work = tempfile.mkdtemp(prefix='verif-%s-' % pid, dir=os.environ.get('VP_WORK') or None)
    status = 2
    try:
        status = check(pid, tier, seed, spec, known, fixed, work, only, jobs, t_start)
    finally:
        if not keep: shutil.rmtree(work, ignore_errors=True)
        else: log('work dir kept:', work)
    sys.exit(status)

def replay_file(pid, path):
    """re-run a recorded counterexample: the harness program (generated C + models) is rebuilt from /repo's current tree with gcc and fed the recorded inputs"""
    rec = json.load(open(path)); spec = load_spec(pid)
    work = tempfile.mkdtemp(prefix='verif-replay-%s-' % pid)
    try:
        for g in spec['groups']:
            insts = [i for i in g['instances'] if i['name'] == rec['instance']]
            if not insts: continue
            g = dict(g); g['instances'] = insts; insts[0].setdefault('cdefs', {}).update(rec.get('cdefs', {}))
            grp = Group(spec, g, work); grp.build()
            rep, txt = native_replay(grp, insts[0], rec['inputs'])
            print('replay of %s/%s: %s (%s)' % (pid, rec['instance'], 'REPRODUCED: ' + str(rec.get('failing')) if rep else 'not reproduced', txt.strip()))
            if rep: print('VIOLATION property=%s replay=%s' % (pid, path))
            sys.exit(1 if rep else 0)
        print('instance %s not found' % rec['instance']); sys.exit(2)
    finally:
        shutil.rmtree(work, ignore_errors=True)

def check(pid, tier, seed, spec, known, fixed, work, only, jobs, t_start):
    groups = []
    for g in spec['groups']:
        g = dict(g)
        insts = [i for i in g['instances'] if tier in i.get('tiers', ('quick', 'thorough')) and (not only or i['name'] in only)]
        # instances that exist only to exclude / demonstrate a known finding
        sel = []
        for i in insts:
            kf = i.get('known_finding')   # key: this instance demonstrates the finding (expected to fail while listed)
            if kf and kf not in known: continue
            sel.append(i)
        g['instances'] = sel
        if sel: groups.append(g)
    # exclusion defines: -DKF_<key> for every listed known finding
    for g in groups:
        for i in g['instances']:
            i.setdefault('cdefs', {})
            for k in known: i['cdefs']['KF_' + re.sub(r'\W', '_', k)] = 1
    for g in groups:
        g['cxxdefs'] = dict(g.get('cxxdefs', {}))
        for k in known: g['cxxdefs']['KF_' + re.sub(r'\W', '_', k)] = 1
    if not groups: raise SystemExit('no instances selected')
    built = []; build_errors = []
    def build_one(g):
        grp = Group(spec, g, work)
        try:
            grp.build(); log('[%s] built group %s in %.1fs: %s' % (pid, g['name'], grp.build_s, grp.ll2c_msg.split('\n')[0])); return grp, None
        except BuildError as e:
            log('[%s] BUILD ERROR %s' % (pid, e)); return None, '%s: %s' % (g['name'], e)
    with concurrent.futures.ThreadPoolExecutor(4) as ex:
        for grp, err in ex.map(build_one, groups):
            if grp is not None: built.append(grp)
            else: build_errors.append(err)
    tasks = [(grp, i) for grp in built for i in grp.g['instances']]
    results = []
    # memory-aware scheduling: total budget 48 GB, at most `jobs` concurrent
    total_mem = float(os.environ.get('VP_MEM_GB', '48')); maxjobs = jobs or int(os.environ.get('VP_JOBS', '10'))
    lock = threading.Condition(); state = dict(mem=0.0, n=0)
    def worker(t):
        grp, inst = t; need = inst.get('mem_gb', 8)
        with lock:
            while state['n'] >= maxjobs or (state['mem'] + need > total_mem and state['n'] > 0): lock.wait()
            state['n'] += 1; state['mem'] += need
        try:
            r = run_instance(grp, inst, tier); r['group'] = grp.g['name']
            log('[%s] %-28s %-12s %6.1fs %5dMB %s' % (pid, inst['name'], r['status'], r['wall_s'], r['rss_mb'], r.get('why', '')[:300]))
            return (grp, inst, r)
        finally:
            with lock:
                state['n'] -= 1; state['mem'] -= need; lock.notify_all()
    with concurrent.futures.ThreadPoolExecutor(max(1, len(tasks))) as ex:
        results = list(ex.map(worker, tasks))
    # violations: trace + native replay
    out_lines = []; violations = 0; inconclusive = [('build', e) for e in build_errors]; kf_seen = set()
    # scratch-worktree runs (VP_REPO set: mutation experiments) never touch /verif/replay or /verif/evidence
    OUT = out_root()
    rdir = os.path.join(OUT, 'replay', pid); os.makedirs(rdir, exist_ok=True)
    for grp, inst, r in results:
        kf = inst.get('known_finding')
        if r['status'] == 'violation':
            tr, err = get_trace(grp, inst, r['failing'][0]['id'])
            if tr is None:
                if kf: inconclusive.append((inst['name'], 'known-finding demonstration did not yield a trace: %s' % err))
                else: inconclusive.append((inst['name'], 'counterexample found but no trace: %s' % err))
                continue
            rep, txt = native_replay(grp, inst, tr['inputs'])
            rpath = os.path.join(rdir, '%s.json' % inst['name'])
            json.dump(dict(property=pid, instance=inst['name'], entry=inst['entry'], failing=tr['desc'], inputs=tr['inputs'], native_replay=txt, cdefs=inst.get('cdefs', {}),
                           failing_assertions=r.get('failing')), open(rpath, 'w'), indent=1)
            r['replay'] = dict(path=rpath, reproduced=rep, detail=txt, failing=tr['desc'], inputs=tr['inputs'][:40])
            if rep is not True:
                inconclusive.append((inst['name'], 'counterexample did not reproduce natively (%s) - harness/model to be fixed' % txt)); continue
            if kf:
                kf_seen.add(kf); out_lines.append('KNOWN-FINDING: property=%s %s [%s]' % (pid, known[kf], kf)); r['status'] = 'known-finding'
            else:
                violations += 1; out_lines.append('VIOLATION property=%s replay=%s' % (pid, rpath))
                out_lines.append('  failing: %s (instance %s)' % (tr['desc'], inst['name']))
        elif r['status'] == 'inconclusive':
            inconclusive.append((inst['name'], r.get('why', '')))
        elif r['status'] == 'pass' and kf:
            # the listed finding no longer shows: the entry is stale, but it suppresses nothing
            out_lines.append('NOTE: known finding %s no longer reproduces' % kf)
    tv = None
    if hasattr(spec['_mod'], 'translation_validation') and built:
        try: tv = spec['_mod'].translation_validation(dict(groups={g.g['name']: g for g in built}, run=run, REPO=REPO, VERIF=VERIF, work=work))
        except Exception as e: tv = dict(ok=False, n=0, detail='translation validation crashed: %r' % e)
        if tv and not tv.get('ok', False): inconclusive.append(('translation-validation', tv.get('detail', '')))
    wall = time.time() - t_start
    write_evidence(pid, tier, seed, spec, built, results, violations, inconclusive, wall, known, fixed, tv)
    for l in out_lines: print(l)
    npass = sum(1 for _g, _i, r in results if r['status'] == 'pass')
    print('[%s] %s: %d instance(s): %d hold within bounds, %d violation(s), %d inconclusive; wall %.0fs' % (pid, tier, len(results), npass, violations, len(inconclusive), wall))
    if violations: return 1
    if inconclusive:
        for n, w in inconclusive: print('INCONCLUSIVE %s: %s' % (n, w[:500]))
        return 2
    return 0

def write_evidence(pid, tier, seed, spec, built, results, violations, inconclusive, wall, known, fixed, tv):
    funcs = set(); models = set(); stubs = set()
    for g in built:
        funcs |= set(g.report['translated']); models |= set(g.report['model']); stubs |= set(g.report['stubbed'])
    def demangle(names):
        names = sorted(names)
        if not names: return []
        try:
            r = subprocess.run(['c++filt'], input='\n'.join(names), stdout=subprocess.PIPE, text=True, timeout=30)
            return r.stdout.split('\n')[:len(names)]
        except Exception: return names
    repo_funcs = [f for f in demangle(funcs) if 'QXmpp' in f or 'vp_' in f or f.startswith('h_')]
    samples = []
    for grp, inst, r in results:
        s = dict(instance=inst['name'], entry=inst['entry'], status=r['status'], bound=inst.get('bound', ''), unwind=r.get('unwind'), obligations=r.get('obligations'), discharged=r.get('discharged'),
                 witness_reached=r.get('witness_reached'), wall_s=r['wall_s'], solver_s=r.get('solver_s'), rss_mb=r['rss_mb'])
        if 'replay' in r: s['counterexample'] = r['replay']
        if r.get('why'): s['why'] = r['why'][:300]
        samples.append(s)
    nontrivial = sum(1 for _g, _i, r in results if r['status'] == 'pass' and r.get('witness_reached'))
    ev = dict(property_id=pid, tier=tier, seed=seed, level='model_checking', wall_s=round(wall, 1), violations=violations,
              coverage=dict(
                  evaluations=sum(max(1, r.get('solver_calls', 0)) for _g, _i, r in results),
                  distinct_nontrivial=nontrivial,
                  rule='one evaluation = one SAT/SMT query discharged by cbmc for a harness instance; an instance counts as non-trivial iff all its obligations (property + safety + unwinding assertions) were discharged AND its witness twin assertion at the end of the harness was violated (harness end reachable, assumptions satisfiable)',
                  samples=samples,
                  obligations=sum(r.get('obligations', 0) or 0 for _g, _i, r in results),
                  discharged=sum(r.get('discharged', 0) or 0 for _g, _i, r in results),
                  checker_cmd=(results[0][2]['cmd'] if results else ''),
                  functions_encoded=dict(count=len(funcs), qxmpp=repo_funcs[:400]),
                  models_used=demangle(models)[:300],
                  stubs_assert_false_if_reached=len(stubs),
                  bounds=spec.get('bounds', []), outside_claim=spec.get('outside', []),
                  solver_s=round(sum(r.get('solver_s', 0) or 0 for _g, _i, r in results), 2),
                  peak_rss_mb=max([r['rss_mb'] for _g, _i, r in results] or [0]),
                  traces_validated_against_impl=(tv or {}).get('n', 0), translation_validation=(tv or {}).get('detail', 'none for this property'),
                  inconclusive=[dict(instance=n, why=w[:300]) for n, w in inconclusive],
                  known_findings=known, fixed_findings=fixed,
                  exhaustive=False),
              assumptions=spec.get('assumptions', []) + ['environment models listed under coverage.models_used', 'C++ exceptions and allocation failure are out of scope (opt -lowerinvoke, --no-malloc-may-fail)',
                                                         'build flags source: ' + (built[0].flag_source if built else 'n/a')])
    OUT = out_root()
    os.makedirs(os.path.join(OUT, 'evidence'), exist_ok=True)
    json.dump(ev, open(os.path.join(OUT, 'evidence', pid + '.json'), 'w'), indent=1)

if __name__ == '__main__':
    main()
