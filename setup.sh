#!/bin/sh
# offline setup: nothing to build for the framework itself (python + pre-installed clang-14/cbmc); make sure the
# repository's configured build dir (generated headers, build.ninja flags) exists.
set -e
if [ ! -f /repo/_build/build.ninja ]; then
  cmake -G Ninja -S /repo -B /repo/_build -DBUILD_TESTS=ON >/dev/null
fi
if [ ! -f /repo/_build/src/QXmppQt5_autogen/include/QXmppGlobal.h ] && [ ! -d /repo/_build/src/QXmppQt5_autogen ]; then
  cmake --build /repo/_build --target QXmppQt5_autogen >/dev/null 2>&1 || true
fi
for t in clang++-14 llvm-link-14 opt-14 cbmc gcc python3; do command -v $t >/dev/null || { echo "missing tool $t"; exit 1; }; done
echo "setup ok"
